(* C19 — proofs about the phase model of the Server-level bookkeeping (PhaseModel.v). *)
From Coq Require Import List Bool Arith.
From TM Require Import C19.Query C19.Model C19.PhaseModel.
Import ListNotations.

Lemma pkey_eqb_eq : forall a b : key, key_eqb a b = true <-> a = b.
Proof.
  intros [a1 a2] [b1 b2]. unfold key_eqb. simpl. rewrite andb_true_iff, !Nat.eqb_eq.
  split; [intros [-> ->]; reflexivity | intro E; inversion E; auto].
Qed.

Lemma kmem_In : forall k s, kmem k s = true <-> In k s.
Proof.
  intros k s. unfold kmem. rewrite existsb_exists. split.
  - intros [x [I E]]. apply pkey_eqb_eq in E. subst x. exact I.
  - intro I. exists k. split; auto. apply pkey_eqb_eq. reflexivity.
Qed.

Lemma kmem_kdel : forall k k0 s, kmem k (kdel k0 s) = if key_eqb k0 k then false else kmem k s.
Proof.
  intros k k0 s. apply eq_iff_eq_true. unfold kdel. rewrite kmem_In, filter_In, negb_true_iff.
  destruct (key_eqb k0 k) eqn:E.
  - split; [intros [_ X]; discriminate | discriminate].
  - rewrite kmem_In. tauto.
Qed.

Lemma kmem_cdel : forall k c s, kmem k (cdel c s) = if Nat.eqb (fst k) c then false else kmem k s.
Proof.
  intros k c s. apply eq_iff_eq_true. unfold cdel. rewrite kmem_In, filter_In, negb_true_iff.
  destruct (Nat.eqb (fst k) c) eqn:E.
  - split; [intros [_ X]; discriminate | discriminate].
  - rewrite kmem_In. tauto.
Qed.

Lemma kmem_kadd : forall k k0 s, kmem k (kadd k0 s) = if key_eqb k0 k then true else kmem k s.
Proof.
  intros k k0 s. apply eq_iff_eq_true. unfold kadd.
  destruct (key_eqb k0 k) eqn:E.
  - apply pkey_eqb_eq in E. subst k0. destruct (kmem k s) eqn:M; [tauto|].
    rewrite kmem_In, in_app_iff. simpl. tauto.
  - destruct (kmem k0 s); [tauto|]. rewrite !kmem_In, in_app_iff. simpl. split; [|tauto].
    intros [I|[X|[]]]; auto. subst k0. rewrite (proj2 (pkey_eqb_eq k k) eq_refl) in E. discriminate.
Qed.

(* the effect of a completed call on the membership of pair k *)
Definition eff (o : call) (k : key) (b : bool) : bool :=
  match o with
  | CSub c q => if key_eqb (c, q) k then true else b
  | CUnsub c q => if key_eqb (c, q) k then false else b
  | CUnsubAll c => if Nat.eqb (fst k) c then false else b
  end.

Lemma ppost_eff : forall o k s, kmem k (ppost o s) = eff o k (kmem k s).
Proof. intros [c q|c q|c] k s; simpl; [apply kmem_kadd | apply kmem_kdel | apply kmem_cdel]. Qed.

Lemma loop_eff : forall o k t d,
  kmem k (loop_tab o t) || kmem k (loop_dropped o d) = eff o k (kmem k t || kmem k d).
Proof.
  intros [c q|c q|c] k t d; simpl.
  - rewrite kmem_kadd, kmem_kdel. destruct (key_eqb (c, q) k); reflexivity.
  - rewrite !kmem_kdel. destruct (key_eqb (c, q) k); reflexivity.
  - rewrite !kmem_cdel. destruct (Nat.eqb (fst k) c); reflexivity.
Qed.

Definition effs (os : list call) (k : key) (b : bool) : bool := fold_left (fun b o => eff o k b) os b.

(* what the loop holds (live or cancelled for capacity) is what Server.subscriptions will hold
   once the pending post phases have run *)
Definition PInv (s : pst) : Prop :=
  forall k, kmem k (tab s) || kmem k (dropped s) = effs (posting s) k (kmem k (srv s)).

Lemma pstep_inv : forall s x, in_order x = true -> PInv s -> PInv (pstep_f s x).
Proof.
  intros s x IO I k. specialize (I k). destruct x as [o|i| |i|k0]; simpl in IO; try discriminate; simpl.
  - destruct (pcheck (srv s) o); exact I.
  - destruct (nth_error (waiting s) i) as [o|]; [|exact I]. simpl.
    rewrite loop_eff, I. unfold effs. rewrite fold_left_app. reflexivity.
  - destruct (posting s) as [|o r] eqn:P; [rewrite P; exact I|]. simpl. rewrite ppost_eff.
    rewrite I. reflexivity.
  - destruct (kmem k0 (tab s)) eqn:M; [|exact I]. simpl. rewrite <- I, kmem_kdel, kmem_kadd.
    destruct (key_eqb k0 k) eqn:E; [|reflexivity].
    apply pkey_eqb_eq in E. subst k0. rewrite M. reflexivity.
Qed.

Lemma prun_inv : forall xs s, forallb in_order xs = true -> PInv s -> PInv (fold_left pstep_f xs s).
Proof.
  induction xs as [|x xs IH]; intros s F I; simpl; [exact I|].
  simpl in F. apply andb_true_iff in F as [F1 F2]. apply IH; auto. apply pstep_inv; auto.
Qed.

(* C19_bookkeeping_consistent: for EVERY interleaving of the check / enqueue / post phases of any
   number of Subscribe / Unsubscribe / UnsubscribeAll calls of any clients (checks on stale
   registrations included) and of capacity cancellations by send, in which the post phases run
   in the order the loop took the commands: whenever no call is in flight, Server.subscriptions
   holds exactly the pairs that are in the loop's table or were cancelled there for capacity and
   not unsubscribed since. *)
Theorem C19_bookkeeping_consistent : forall xs : list pstep,
  forallb in_order xs = true ->
  quiescent (prun xs) = true ->
  forall k, kmem k (srv (prun xs)) = kmem k (tab (prun xs)) || kmem k (dropped (prun xs)).
Proof.
  intros xs F Q k.
  assert (I : PInv (prun xs)) by (apply prun_inv; [exact F | intro k'; reflexivity]).
  specialize (I k). unfold quiescent in Q.
  destruct (waiting (prun xs)); [|discriminate]. destruct (posting (prun xs)); [|discriminate].
  simpl in I. symmetry. exact I.
Qed.

Print Assumptions C19_bookkeeping_consistent.

(* ------------------------------------------------------------------ concrete instances *)

(* client 0 holds query 0; then UnsubscribeAll(0), Subscribe(0, 1), Unsubscribe(0, 0) are in
   flight together: all three checks run first, the loop takes the commands in this order, the
   post phases follow in the same order *)
Definition sched_k : list pstep :=
  [PCheck (CSub 0 0); PEnq 0; PPost;
   PCheck (CUnsubAll 0); PCheck (CSub 0 1); PCheck (CUnsub 0 0);
   PEnq 0; PPost; PEnq 0; PPost; PEnq 0; PPost].

Example C19_bookkeeping_consistent_nonvacuous :
  forallb in_order sched_k = true /\ quiescent (prun sched_k) = true /\
  srv (prun sched_k) = [(0, 1)] /\ tab (prun sched_k) = [(0, 1)].
Proof. vm_compute. auto. Qed.

(* F59: on the ORIGINAL code Unsubscribe's post phase empties the inner map it read during its
   check (by now detached) and then deletes the client's CURRENT entry: the live pair (0, 1)
   is wiped from Server.subscriptions *)
Example C19_original_bookkeeping_refuted :
  o_waiting (orun sched_k) = [] /\ o_posting (orun sched_k) = [] /\
  omem (0, 1) (o_srv (orun sched_k)) = false /\ ohas_client 0 (o_srv (orun sched_k)) = false /\
  kmem (0, 1) (o_tab (orun sched_k)) = true.
Proof. vm_compute. auto. Qed.

(* the premise on the order of the post phases is needed (repaired and original code alike):
   UnsubscribeAll(0)'s command is taken before Subscribe(0, 1)'s, but its post phase runs after *)
Definition sched_v : list pstep :=
  [PCheck (CSub 0 0); PEnq 0; PPost;
   PCheck (CUnsubAll 0); PCheck (CSub 0 1); PEnq 0; PEnq 0; PPostAny 1; PPostAny 0].

Example C19_bookkeeping_post_order_needed :
  quiescent (prun sched_v) = true /\
  kmem (0, 1) (srv (prun sched_v)) = false /\ kmem (0, 1) (tab (prun sched_v)) = true.
Proof. vm_compute. auto. Qed.
