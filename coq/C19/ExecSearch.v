(* C19 (search half) — executable side: the case type written by
   harness/overlay/state/txindex/kv/verif_c19_search_test.go, the monitors of the clause
   "every committed transaction is indexed once under its height, position and events, and a
   search returns exactly the indexed items that satisfy the query" evaluated on the
   implementation's own answers, and the comparison with the model (SearchModel.v).
   Depends on Query.v and SearchModel.v only.

   "Satisfies the query" = the real query.Matches (libs/pubsub/query) returned (true, nil) on the
   transaction's event map {type.key -> values of the attributes with Index=true, in order;
   tx.height -> [height]; tx.hash -> [hash]}; the harness evaluates it in Go for every indexed
   transaction and hands the verdicts over ([mv]); an error of Matches counts as "no".

   CLAUSES (V_violation n), evaluated only when the case satisfies the stated premises
   (transaction hashes pairwise distinct, (height, index) pairs pairwise distinct):
     11  Search returned a transaction that does not satisfy the query (false positive)
     12  Search missed an indexed transaction that satisfies the query (false negative; a Search
         that fails or panics counts as returning nothing)
     13  a committed transaction is not retrievable by its hash with the indexed height, index
         and code, or Search returned the same transaction twice
   OBSERVABLES (V_mismatch n):
     31  model search (set of hashes / error / panic) vs TxIndex.Search
     32  model [matches q (tx_events tx)] vs the real Query.Matches on the Go event map
     33  model get vs TxIndex.Get (found?, height, index, code)
   KNOWN classes (V_known n instead of V_violation when the failing query/data is in the class;
   the class must be able to explain the direction of the failure):
     17  key layout / numeric strictness (F17), clauses 11 and 12:
         some indexed composite tag or value contains '/', or a query key or string operand
         contains '/'; or a condition with an integer operand on key k while some indexed
         transaction has under k a value v that is not the canonical decimal of an int64 >= 0,
         unless v has no digit and no dot and is the only value of k in that transaction
     24  tx.hash short-cut, clause 11 only: the query has a tx.hash condition and at least one
         other condition
     25  merged ranges, clauses 11 and 12: two lower-bound (> >=) or two upper-bound (< <=)
         conditions on one key; or a lower and an upper bound on a key under which some indexed
         transaction has two or more values
     26  TIME/DATE operand, clause 12 only: some condition has a TIME/DATE operand
     27  EXISTS on a key without '.', clause 12 only *)
From Coq Require Import String Ascii List ZArith NArith Bool.
From TM Require Export C19.Query.
From TM Require Import Common.Hex C19.SearchModel.
Import ListNotations.
Open Scope Z_scope.

Definition attr_t := (string * string * bool)%type.           (* key, value, Index *)
Definition event_t := (string * list attr_t)%type.            (* type, attributes *)
Definition tx_t := (string * Z * Z * Z * list event_t)%type.  (* hash token, height, index, code, events *)
Inductive sop_t := SBatch (txs : list tx_t) | SIndex (tx : tx_t).
Definition cond_t := (string * opr * operand)%type.
Inductive ires := IOk (ids : list string) | IErr | IPanic.
(* conditions; Search's answer; Matches' verdict for each transaction of the history, in
   history order: 0 false, 1 true, 2 error *)
Definition squery_t := (list cond_t * ires * list N)%type.

(* hist: the AddBatch / Index calls in order; gets: TxIndex.Get(hash) of each transaction of
   the history afterwards (height, index, code), in history order; qs: the queries *)
Inductive scase := SCase (hist : list sop_t) (gets : list (option (Z * Z * Z))) (qs : list squery_t).

Definition mk_attr (a : attr_t) : attr :=
  let '(k, v, i) := a in {| a_key := k; a_val := v; a_index := i |}.
Definition mk_event (e : event_t) : event :=
  let '(t, l) := e in {| e_type := t; e_attrs := map mk_attr l |}.
Definition mk_tx (t : tx_t) : txres :=
  let '(h, ht, ix, code, evs) := t in
  {| t_hash := h; t_height := ht; t_index := ix; t_code := code; t_events := map mk_event evs |}.
Definition mk_op (o : sop_t) : iop :=
  match o with SBatch l => OBatch (map mk_tx l) | SIndex t => OIndex (mk_tx t) end.
Definition mk_cond (c : cond_t) : cond :=
  let '(k, o, a) := c in {| c_key := k; c_op := o; c_arg := a |}.

Definition mism (b : bool) (code : N) : verdict := if b then V_ok else V_mismatch code.
Definition viol (b : bool) (clause : N) : verdict := if b then V_ok else V_violation clause.
Definition known (b : bool) (code : N) : verdict := if b then V_ok else V_known code.

(* ------------------------------------------------------------------ small helpers *)

Definition subset (a b : list string) : bool := forallb (fun x => smem x b) a.
Definition set_eqb (a b : list string) : bool := subset a b && subset b a.
Fixpoint nodupb (l : list string) : bool :=
  match l with [] => true | x :: r => negb (smem x r) && nodupb r end.
Fixpoint zz_mem (x : Z * Z) (l : list (Z * Z)) : bool :=
  match l with [] => false | y :: r => ((fst x =? fst y) && (snd x =? snd y)) || zz_mem x r end.
Fixpoint zz_nodup (l : list (Z * Z)) : bool :=
  match l with [] => true | x :: r => negb (zz_mem x r) && zz_nodup r end.

Definition has_slash (s : string) : bool := has_char "/"%char s.

(* ------------------------------------------------------------------ known classes *)

(* canonical decimal of an int64 >= 0 *)
Definition canonical (v : string) : bool :=
  match parse_int_go v with
  | Some z => (0 <=? z) && String.eqb v (dec z)
  | None => false
  end.
Definition digit_free (v : string) : bool := is_empty (num_filter v).

Definition num_bad_tx (k : string) (t : txres) : bool :=
  let vs := vals_of k (ext_attrs t) in
  existsb (fun v => negb (canonical v) && negb (digit_free v && Nat.eqb (List.length vs) 1)) vs.

Definition is_int_arg (a : operand) : bool := match a with OInt _ => true | _ => false end.
Definition is_time_arg (a : operand) : bool := match a with OTime _ => true | _ => false end.

Definition in17 (txs : list txres) (q : query) : bool :=
  existsb (fun t => existsb (fun tv => has_slash (fst tv) || has_slash (snd tv)) (indexed_attrs t)) txs
  || existsb (fun c => has_slash (c_key c)
                       || match c_arg c with OStr s => has_slash s | _ => false end) q
  || existsb (fun c => is_int_arg (c_arg c) && existsb (num_bad_tx (c_key c)) txs) q.

Definition in24 (q : query) : bool :=
  existsb (fun c => String.eqb (c_key c) TxHashKey) q && Nat.ltb 1 (List.length q).

Definition is_lower (o : opr) : bool := match o with OpGt | OpGe => true | _ => false end.
Definition is_upper (o : opr) : bool := match o with OpLt | OpLe => true | _ => false end.
Definition count_conds (f : opr -> bool) (k : string) (q : query) : nat :=
  List.length (filter (fun c => f (c_op c) && String.eqb (c_key c) k) q).
Definition in25 (txs : list txres) (q : query) : bool :=
  existsb (fun c =>
    let k := c_key c in
    let lo := count_conds is_lower k q in
    let hi := count_conds is_upper k q in
    Nat.ltb 1 lo || Nat.ltb 1 hi
    || (Nat.ltb 0 lo && Nat.ltb 0 hi
        && existsb (fun t => Nat.ltb 1 (List.length (vals_of k (ext_attrs t)))) txs)) q.

Definition in26 (q : query) : bool := existsb (fun c => is_time_arg (c_arg c)) q.

Definition in27 (q : query) : bool :=
  existsb (fun c => match c_op c with OpExists => negb (has_char "."%char (c_key c)) | _ => false end) q.

(* a failed monitor: known class (first applicable) or violation *)
Definition classify (ok : bool) (clause : N) (classes : list (bool * N)) : verdict :=
  if ok then V_ok
  else match filter (fun bc => fst bc) classes with
       | (_, code) :: _ => V_known code
       | [] => V_violation clause
       end.

(* ------------------------------------------------------------------ check *)

Definition mres_code (m : mres) : N := match m with MFalse => 0 | MTrue => 1 | MErr => 2 end%N.

Definition sres_agree (m : sres) (i : ires) : bool :=
  match m, i with
  | SOk a, IOk b => set_eqb a b
  | SErr, IErr => true
  | SPanic, IPanic => true
  | _, _ => false
  end.

Fixpoint pick_true (txs : list txres) (mv : list N) : list string :=
  match txs, mv with
  | t :: txs', v :: mv' => (if (v =? 1)%N then [t_hash t] else []) ++ pick_true txs' mv'
  | _, _ => []
  end.

Definition get_triple (o : option txres) : option (Z * Z * Z) :=
  match o with Some r => Some (t_height r, t_index r, t_code r) | None => None end.
Definition otriple_eqb (a b : option (Z * Z * Z)) : bool :=
  match a, b with
  | None, None => true
  | Some (x, y, z), Some (x', y', z') => (x =? x') && (y =? y') && (z =? z')
  | _, _ => false
  end.

Definition query_verdicts (premises : bool) (st : store) (txs : list txres) (sq : squery_t)
  : list verdict :=
  let '(conds, ir, mv) := sq in
  let q := map mk_cond conds in
  let returned := match ir with IOk ids => ids | _ => [] end in
  let satisfying := pick_true txs mv in
  let c17 := in17 txs q in let c24 := in24 q in let c25 := in25 txs q in
  let c26 := in26 q in let c27 := in27 q in
  (if premises then
     [ classify (subset returned satisfying) 11 [(c24, 24%N); (c25, 25%N); (c17, 17%N)];
       classify (subset satisfying returned) 12 [(c26, 26%N); (c25, 25%N); (c27, 27%N); (c17, 17%N)];
       viol (nodupb returned) 13 ]
   else [])
  ++ [ mism (sres_agree (search st q) ir) 31;
       mism (Nat.eqb (List.length mv) (List.length txs)
             && forallb (fun tv => (mres_code (matches q (tx_events (fst tv))) =? snd tv)%N)
                        (combine txs mv)) 32 ].

Definition scheck (c : scase) : verdict :=
  match c with
  | SCase hist gets qs =>
    let ops := map mk_op hist in
    let txs := history_txs ops in
    let st := run_history ops in
    let premises := nodupb (map t_hash txs)
                    && zz_nodup (map (fun t => (t_height t, t_index t)) txs) in
    first_of (
      (if premises then
         [ viol (Nat.eqb (List.length gets) (List.length txs)
                 && forallb (fun tg => otriple_eqb (get_triple (Some (fst tg))) (snd tg))
                            (combine txs gets)) 13 ]
       else [])
      ++ [ mism (Nat.eqb (List.length gets) (List.length txs)
                 && forallb (fun tg => otriple_eqb (get_triple (get st (t_hash (fst tg)))) (snd tg))
                            (combine txs gets)) 33 ]
      ++ flat_map (query_verdicts premises st txs) qs)
  end.
