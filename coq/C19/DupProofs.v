(* C19 (search half, finding F91) — the exactness theorems outside known class 91, with the
   premise "transaction bytes pairwise distinct" replaced by the decidable class test, and the
   class exhibited on the model. *)
From Coq Require Import String Ascii List ZArith Bool Lia.
From TM Require Import C19.Query C19.SearchModel C19.SearchProofs C19.DecProofs
     C19.BlockModel C19.BlockProofs C19.SearchRangeProofs C19.SearchExact C19.DupModel.
Import ListNotations.
Open Scope Z_scope.

Lemma hpos_eq : forall a b, hpos a = hpos b ->
  (t_height a =? t_height b) && (t_index a =? t_index b) = true.
Proof.
  intros a b E. unfold hpos in E. injection E as -> ->. rewrite !Z.eqb_refl. reflexivity.
Qed.

(* outside the class, distinct positions carry distinct transaction bytes *)
Lemma no_dup91_distinct : forall txs,
  NoDup (map hpos txs) -> dup91 txs = false -> Distinct txs.
Proof.
  intros txs NP ND. split; [|exact NP].
  induction txs as [|t r IH]; cbn [map]; [constructor|].
  cbn [dup91] in ND. apply orb_false_iff in ND as [E ND].
  cbn [map] in NP. inversion NP as [|? ? NI NP']; subst.
  constructor; [|apply IH; assumption].
  intro I. apply in_map_iff in I as [u [EH IU]].
  assert (X : same_bytes_other_pos t u = true).
  { unfold same_bytes_other_pos. rewrite EH, String.eqb_refl. cbn [andb]. apply negb_true_iff.
    destruct ((t_height t =? t_height u) && (t_index t =? t_index u)) eqn:P; [|reflexivity].
    exfalso. apply NI. apply in_map_iff. exists u. split; [|exact IU].
    apply andb_true_iff in P as [P1 P2]. apply Z.eqb_eq in P1. apply Z.eqb_eq in P2.
    unfold hpos. congruence. }
  assert (Y : existsb (same_bytes_other_pos t) r = true) by (apply existsb_exists; eauto).
  congruence.
Qed.

(* C19_tx_search_exact_ranges with the premise on transaction bytes replaced by the class
   test: every history of commits at pairwise distinct (height, index) that is NOT in known
   class 91 *)
Theorem tx_search_exact_except_known : forall (h : list iop) (q : query),
  NoDup (map hpos (history_txs h)) ->
  dup91 (history_txs h) = false ->
  (forall t, In t (history_txs h) -> TxDomain t) ->
  HeightsOK (history_txs h) ->
  q <> [] ->
  (forall c, In c q -> wf_cond_rc (history_txs h) c) ->
  TxRangeShape (history_txs h) q ->
  exists ids, search (run_history h) q = SOk ids /\
    forall id, In id ids <->
      exists t, In t (history_txs h) /\ t_hash t = id /\ matches q (tx_events t) = MTrue.
Proof.
  intros h q NP ND. apply C19_tx_search_exact_ranges. apply no_dup91_distinct; assumption.
Qed.

(* ... and C19_indexed_once *)
Theorem indexed_once_except_known : forall h : list iop,
  NoDup (map hpos (history_txs h)) ->
  dup91 (history_txs h) = false ->
  let st := run_history h in
  NoDup (map fst (s_idx st)) /\ NoDup (map fst (s_prim st)) /\
  (forall k id, In (k, id) (s_idx st) <->
     exists t, In t (history_txs h) /\ id = t_hash t /\ In k (keys_of t)) /\
  (forall id t, get st id = Some t <-> In t (history_txs h) /\ t_hash t = id).
Proof.
  intros h NP ND. apply C19_indexed_once. apply no_dup91_distinct; assumption.
Qed.

(* ------------------------------------------------------------------ the class on the model *)

(* the audit's history: "k=v" committed at 5/0 (code 0, transfer.to = alice) and again at 9/0
   (code 7, transfer.to = nobody), through AddBatch as IndexerService does *)
Local Open Scope string_scope.
Definition d91_t5 : txres :=
  {| t_hash := "kv"; t_height := 5; t_index := 0; t_code := 0;
     t_events := [ {| e_type := "transfer";
                      e_attrs := [ {| a_key := "to"; a_val := "alice"; a_index := true |} ] |} ] |}.
Definition d91_t9 : txres :=
  {| t_hash := "kv"; t_height := 9; t_index := 0; t_code := 7;
     t_events := [ {| e_type := "transfer";
                      e_attrs := [ {| a_key := "to"; a_val := "nobody"; a_index := true |} ] |} ] |}.
Definition d91_hist : list iop := [OBatch [d91_t5]; OBatch [d91_t9]].

(* F91: Search(tx.height = 5), Search(transfer.to = 'alice') and their conjunction return the
   hash whose record is the commit at height 9, which satisfies none of them; the commit at
   height 5 is gone; tx.height >= 1 knows one transaction where two were committed *)
Example search_duplicate_bytes_refuted :
  let st := run_history d91_hist in
  let q5 := [cnd "tx.height" OpEq (OInt 5)] in
  let qa := [cnd "transfer.to" OpEq (OStr "alice")] in
  NoDup (map hpos (history_txs d91_hist)) /\ dup91 (history_txs d91_hist) = true /\
  get st "kv" = Some d91_t9 /\
  search st q5 = SOk ["kv"%string] /\ sat q5 d91_t9 = false /\ sat q5 d91_t5 = true /\
  search st qa = SOk ["kv"%string] /\ sat qa d91_t9 = false /\
  search st (q5 ++ qa)%list = SOk ["kv"%string] /\
  search st [cnd "tx.height" OpGe (OInt 1)] = SOk ["kv"%string].
Proof.
  cbv zeta. split; [repeat constructor; cbn; intuition discriminate|]. vm_compute. auto 12.
Qed.

Example tx_search_exact_except_known_nonvacuous :
  NoDup (map hpos (history_txs nv_hist)) /\ dup91 (history_txs nv_hist) = false.
Proof. split; [repeat constructor; cbn; intuition discriminate | reflexivity]. Qed.

Print Assumptions tx_search_exact_except_known.
Print Assumptions indexed_once_except_known.
