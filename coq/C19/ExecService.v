(* C19 — executable side for the indexer service (cases written by
   harness/overlay/state/txindex/verif_c19_service_test.go).  Depends on ExecSearch.v,
   ExecBlock.v and ServiceModel.v.

   A case: terminateOnError; the published blocks in order (the last one is the empty draining
   block): header data with "a fresh block indexer accepts these events" (the real
   BlockerIndexer.Index on an empty store) and the block's Tx publications in the order
   published; then: is the service still running; TxIndex.Get for every published transaction
   (publication order); TxIndex.Search(tx.height = h) and BlockerIndexer.Has(h) for every
   published height.

   CLAUSES (V_violation), on the implementation's own answers.  REQUIRED blocks = all published
   blocks when terminateOnError is false; the blocks before the first one whose events the block
   indexer rejects when it is true (the operator asked the service to stop at the first error:
   nothing is demanded from there on).  18 is evaluated when the transactions of the history
   have pairwise distinct bytes and (height, index) positions.
     18  a committed transaction of a required block is not retrievable by its hash with its
         height, index and code, or Search(tx.height = its height) does not return it exactly
         once / returns something that was not published at that height — whatever the block
         indexer said about that or any other block's events
     19  a required block whose events the block indexer accepts is not in the block index
         (Has), or a height without any accepted block is
   OBSERVABLES (V_mismatch): 51 Get per transaction, 52 Search(tx.height = h), 53 Has(h),
     54 service still running  — vs ServiceModel.v composed with SearchModel.v / BlockModel.v *)
From Coq Require Import String Ascii List ZArith NArith Bool.
From TM Require Import Common.Hex C19.Query C19.SearchModel.
From TM Require Export C19.ExecSearch C19.ExecBlock.
From TM Require Export C19.ServiceModel.
Import ListNotations.
Open Scope Z_scope.

Inductive vcase :=
  VCase (term : bool) (blocks : list (blk_t * list tx_t)) (running : bool)
        (gets : list (option (Z * Z * Z))) (byh : list (Z * ires)) (has : list (Z * bool)).

Definition count_str (x : string) (l : list string) : nat :=
  List.length (filter (String.eqb x) l).

(* the prefix of required blocks *)
Fixpoint required (term : bool) (bs : list (blk_t * list tx_t)) : list (blk_t * list tx_t) :=
  match bs with
  | [] => []
  | b :: r => if term && negb (blk_ok (fst b)) then [] else b :: required term r
  end.

Definition blk_height (b : blk_t) : Z := let '(h, _, _, _) := b in h.

Fixpoint alookup_z {V} (h : Z) (l : list (Z * V)) : option V :=
  match l with
  | [] => None
  | (h', v) :: r => if h =? h' then Some v else alookup_z h r
  end.

Definition vcheck (c : vcase) : verdict :=
  match c with
  | VCase term blocks running gets byh has =>
    let alltx := flat_map (fun b => map mk_tx (snd b)) blocks in
    let req := required term blocks in
    let reqtx := flat_map (fun b => map mk_tx (snd b)) req in
    let premise := nodupb (map t_hash alltx)
                   && zz_nodup (map (fun t => (t_height t, t_index t)) alltx) in
    let tokens_at h := match alookup_z h byh with Some (IOk ids) => Some ids | _ => None end in
    (* model *)
    let pbs := map (fun b => (mk_blk (fst b), map mk_tx (snd b))) blocks in
    let s := svc_run term (events_all pbs) in
    first_of (
      (if premise then
         [ viol (forallb (fun tg => otriple_eqb (get_triple (Some (fst tg))) (snd tg))
                         (firstn (List.length reqtx) (combine alltx gets))
                 && Nat.leb (List.length alltx) (List.length gets)) 18;
           viol (forallb (fun t => match tokens_at (t_height t) with
                                   | Some ids => Nat.eqb (count_str (t_hash t) ids) 1
                                   | None => false
                                   end) reqtx) 18;
           viol (forallb (fun hr => match snd hr with
                                    | IOk ids =>
                                      forallb (fun id => existsb (fun t => String.eqb (t_hash t) id
                                                                          && (t_height t =? fst hr)) alltx) ids
                                      && nodupb ids
                                    | _ => negb (existsb (fun t => t_height t =? fst hr) reqtx)
                                    end) byh) 18 ]
       else [])
      ++ [ viol (forallb (fun b => negb (blk_ok (fst b))
                                   || existsb (fun ha => (fst ha =? blk_height (fst b)) && snd ha) has) req) 19;
           viol (forallb (fun ha => negb (snd ha)
                                    || existsb (fun b => blk_ok (fst b) && (blk_height (fst b) =? fst ha)) blocks)
                         has) 19;
           mism (Nat.eqb (List.length gets) (List.length alltx)
                 && forallb (fun tg => otriple_eqb (get_triple (get (sv_tx s) (t_hash (fst tg)))) (snd tg))
                            (combine alltx gets)) 51;
           mism (forallb (fun hr => sres_agree (search (sv_tx s)
                                      [{| c_key := TxHeightKey; c_op := OpEq; c_arg := OInt (fst hr) |}])
                                               (snd hr)) byh) 52;
           mism (forallb (fun ha => Bool.eqb (bhas (sv_blk s) (fst ha)) (snd ha)) has) 53;
           mism (Bool.eqb (sv_run s && negb (sv_blocked s) && negb (sv_crashed s)) running) 54 ])
  end.
