(* C19 — executable side of the correspondence check (pub/sub half; the indexer half is in
   ExecSearch.v (transactions) and ExecBlock.v (blocks), both re-exported from here).  Depends on Query.v / Model.v only.

   Cases written by harness/overlay/libs/pubsub/verif_c19_pubsub_test.go:
   * CMatch  one query against one event map: the real Query.Matches verdict.
   * CPub    one whole history on a real pubsub.Server (every command waited for), the result
             of every call, the verdict of the real Matches for every publication and every
             query of the history, every Subscription ever handed out with what its reader
             received in total and its final Err(); then the same history restricted to the
             commands of ONE client (plus all publications) on a fresh server.
   * CState  a history driven directly on the loop's `state` (add/remove/removeClient/send)
             with the two tables read back after every step.

   Clauses (monitors on the implementation's own answers):
     1  a subscription's reader did not receive exactly the publications matching its own
        query (by the implementation's own Matches) published while it was subscribed, in
        order, each once — without having been cancelled with ErrOutOfCapacity (in which case
        a prefix of them is required)
     2  what a client received / was told differs between the full history and the same
        history without the other clients (isolation)
     5  the loop's tables are inconsistent: a query string in state.subscriptions without
        state.queries entry (next send dereferences nil), refCount <> number of clients, or
        an empty client map left behind
   Observables (model vs implementation):
     21 Query.Matches verdict   22 result of Subscribe/Unsubscribe/UnsubscribeAll
     23 messages received per subscription   24 Err() per subscription
     25 number of subscriptions handed out   26 state.subscriptions after a step
     27 state.queries (refCounts) after a step *)
From Coq Require Import String List ZArith NArith Bool Arith.
From TM Require Import Common.Hex.
From TM Require Export C19.Query C19.Model.
From TM Require Export C19.ExecSearch.
From TM Require Export C19.ExecBlock.
Import ListNotations.

Definition mism (b : bool) (code : N) : verdict := if b then V_ok else V_mismatch code.
Definition viol (b : bool) (clause : N) : verdict := if b then V_ok else V_violation clause.

Fixpoint list_eqb {A} (eqb : A -> A -> bool) (a b : list A) : bool :=
  match a, b with
  | [], [] => true
  | x :: a', y :: b' => eqb x y && list_eqb eqb a' b'
  | _, _ => false
  end.

(* ------------------------------------------------------------------ case type *)

Inductive xop :=
| XSub (c q cap : nat) (res_i : N)      (* 0 nil, 1 ErrAlreadySubscribed, 2 ErrSubscriptionNotFound, 9 other/timeout *)
| XUnsub (c q : nat) (res_i : N)
| XUnsubAll (c : nat) (res_i : N)
| XPub (m : nat) (ev : events) (match_i : list N)   (* real Matches per query: 0 false, 1 true, 2 error *)
| XRead (c q n : nat).

(* a Subscription handed out: client, query, capacity, everything its reader received (final
   drain included), final Err(): 0 nil, 1 ErrUnsubscribed, 2 ErrOutOfCapacity, 9 other *)
Definition inc := (nat * nat * nat * list nat * N)%type.

Inductive sop :=
| SAdd (c q cap : nat)
| SRemove (c q : nat)
| SRemoveClient (c : nat)
| SSend (m : nat) (ev : events).

(* tables after a step: subscriptions (sorted by query, clients sorted), refCounts (sorted) *)
Definition sobs := (list (nat * list nat) * list (nat * Z))%type.

Inductive case :=
| CMatch (q : query) (ev : events) (res_i : N)
| CPub (qtab : list query) (ops : list xop) (incs_i : list inc) (cstar : nat) (solo_i : list inc)
| CState (qtab : list query) (steps : list (sop * sobs)).

(* ------------------------------------------------------------------ running the model *)

Definition Qof (qtab : list query) (i : nat) : query := nth i qtab [].
Definition ord_id : forall A : Type, nat -> list A -> list A := fun _ _ l => l.

Definition mres_code (r : mres) : N := match r with MFalse => 0 | MTrue => 1 | MErr => 2 end%N.
Definition res_code (r : res) : N :=
  match r with ROk => 0 | RAlreadySubscribed => 1 | RNotFound => 2 end%N.
Definition err_code (e : option reason) : N :=
  match e with None => 0 | Some Unsubscribed => 1 | Some OutOfCapacity => 2 end%N.

Definition to_op (x : xop) : op :=
  match x with
  | XSub c q cap _ => Subscribe c q cap
  | XUnsub c q _ => Unsubscribe c q
  | XUnsubAll c _ => UnsubscribeAll c 0
  | XPub m ev _ => Publish m ev 0
  | XRead c q n => Read c q n
  end.

(* replace the chan of the LAST entry with key k *)
Fixpoint set_first (k : key) (ch : chan) (l : list (key * nat * chan)) : list (key * nat * chan) :=
  match l with
  | [] => []
  | (k', cap, c) :: r => if key_eqb k k' then (k', cap, ch) :: r else (k', cap, c) :: set_first k ch r
  end.
Definition set_last k ch l := rev (set_first k ch (rev l)).

(* the Subscriptions handed out so far, in creation order; the entry of a pair's current
   Subscription is refreshed from the heap whenever the pair is touched *)
Definition sync (k : key) (s : st) (l : list (key * nat * chan)) :=
  match alookup key_eqb k (heap s) with
  | Some ch => set_last k ch l
  | None => l
  end.

Fixpoint run_x (qtab : list query) (s : st) (incs : list (key * nat * chan)) (ops : list xop)
  : list N * list (key * nat * chan) * st :=
  match ops with
  | [] =>
    (* final state of every current Subscription *)
    ([], fold_left (fun l (e : key * chan) => set_last (fst e) (snd e) l) (heap s) incs, s)
  | x :: r =>
    let '(s', rs) := step (Qof qtab) ord_id s (to_op x) in
    let incs' :=
      match x, rs with
      | XSub c q cap _, ROk => sync (c, q) s incs ++ [((c, q), cap, new_chan cap)]
      | _, _ => incs
      end in
    let '(codes, fin, sf) := run_x qtab s' incs' r in
    (match x with
     | XSub _ _ _ _ | XUnsub _ _ _ | XUnsubAll _ _ => res_code rs :: codes
     | _ => codes
     end, fin, sf)
  end.

Definition xop_res (x : xop) : list N :=
  match x with
  | XSub _ _ _ r | XUnsub _ _ r | XUnsubAll _ r => [r]
  | _ => []
  end.

(* ------------------------------------------------------------------ monitor of clause 1:
   computed from the history, the implementation's own call results and its own Matches
   verdicts only.  A window opens when Subscribe returns nil and closes when Unsubscribe /
   UnsubscribeAll of that client returns nil. *)

(* per Subscription in creation order: key, window open?, matching publications so far *)
Definition win := (key * bool * list nat)%type.

Definition close_if (p : key -> bool) (w : win) : win :=
  let '(k, o, m) := w in if p k then (k, false, m) else w.

Definition mon_step (ws : list win) (x : xop) : list win :=
  match x with
  | XSub c q _ r => if (r =? 0)%N then ws ++ [((c, q), true, [])] else ws
  | XUnsub c q r => if (r =? 0)%N then map (close_if (key_eqb (c, q))) ws else ws
  | XUnsubAll c r => if (r =? 0)%N then map (close_if (fun k => Nat.eqb (fst k) c)) ws else ws
  | XPub m _ mi =>
    map (fun w : win => let '(k, o, ms) := w in
           if o && (nth (snd k) mi 0 =? 1)%N then (k, o, ms ++ [m]) else w) ws
  | XRead _ _ _ => ws
  end.

Fixpoint is_prefix (a b : list nat) : bool :=
  match a, b with
  | [], _ => true
  | x :: a', y :: b' => Nat.eqb x y && is_prefix a' b'
  | _, [] => false
  end.

Definition inc_ok (w : win) (i : inc) : bool :=
  let '(k, _, ms) := w in
  let '(c, q, cap, got, err) := i in
  key_eqb k (c, q) &&
  (if (err =? 2)%N then negb (Nat.eqb cap 0) && is_prefix got ms
   else list_eqb Nat.eqb got ms).

Fixpoint all2 {A B} (f : A -> B -> bool) (a : list A) (b : list B) : bool :=
  match a, b with
  | [], [] => true
  | x :: a', y :: b' => f x y && all2 f a' b'
  | _, _ => false
  end.

Definition delivery_ok (ops : list xop) (incs : list inc) : bool :=
  all2 inc_ok (fold_left mon_step ops []) incs.

Definition inc_eqb (a b : inc) : bool :=
  let '(c, q, cap, got, err) := a in
  let '(c', q', cap', got', err') := b in
  Nat.eqb c c' && Nat.eqb q q' && Nat.eqb cap cap' && list_eqb Nat.eqb got got' && (err =? err')%N.

Definition inc_client (i : inc) : nat := let '(c, _, _, _, _) := i in c.

(* ------------------------------------------------------------------ monitor of clause 5 *)

Definition tables_ok (o : sobs) : bool :=
  let '(tb, qs) := o in
  forallb (fun e : nat * list nat =>
             negb (Nat.eqb (length (snd e)) 0) &&
             match alookup Nat.eqb (fst e) qs with
             | Some n => (n =? Z.of_nat (length (snd e)))%Z
             | None => false
             end) tb
  && forallb (fun e : nat * Z =>
                match alookup Nat.eqb (fst e) tb with Some _ => true | None => false end) qs.

(* insertion sort of association lists by key, client lists sorted *)
Fixpoint ins_nat (x : nat) (l : list nat) : list nat :=
  match l with [] => [x] | y :: r => if Nat.leb x y then x :: l else y :: ins_nat x r end.
Definition sort_nat (l : list nat) := fold_right ins_nat [] l.
Fixpoint ins_kv {V} (e : nat * V) (l : list (nat * V)) : list (nat * V) :=
  match l with [] => [e] | y :: r => if Nat.leb (fst e) (fst y) then e :: l else y :: ins_kv e r end.
Definition sort_kv {V} (l : list (nat * V)) := fold_right ins_kv [] l.

Definition model_obs (s : st) : sobs :=
  (sort_kv (map (fun e : nat * list nat => (fst e, sort_nat (snd e))) (subs s)), sort_kv (queries s)).

Definition s_step (qtab : list query) (s : st) (o : sop) : st :=
  match o with
  | SAdd c q cap => add s c q cap
  | SRemove c q => remove s c q Unsubscribed
  | SRemoveClient c => remove_client ord_id 0 s c Unsubscribed
  | SSend m ev => send (Qof qtab) ord_id 0 m ev s
  end.

Definition subs_eqb (a b : list (nat * list nat)) : bool :=
  list_eqb (fun x y => Nat.eqb (fst x) (fst y) && list_eqb Nat.eqb (snd x) (snd y)) a b.
Definition qs_eqb (a b : list (nat * Z)) : bool :=
  list_eqb (fun x y => Nat.eqb (fst x) (fst y) && (snd x =? snd y)%Z) a b.

Fixpoint run_s (qtab : list query) (s : st) (steps : list (sop * sobs)) : list verdict :=
  match steps with
  | [] => []
  | (o, ob) :: r =>
    let s' := s_step qtab s o in
    let mo := model_obs s' in
    viol (tables_ok ob) 5 :: mism (subs_eqb (fst mo) (fst ob)) 26 :: mism (qs_eqb (snd mo) (snd ob)) 27
    :: run_s qtab s' r
  end.

(* ------------------------------------------------------------------ check *)

Definition model_incs (fin : list (key * nat * chan)) : list inc :=
  map (fun e : key * nat * chan =>
         let '(k, cap, ch) := e in (fst k, snd k, cap, pushed ch, err_code (ch_err ch))) fin.

Definition inc_got (i : inc) := let '(_, _, _, g, _) := i in g.
Definition inc_err (i : inc) := let '(_, _, _, _, e) := i in e.
Definition inc_id (i : inc) := let '(c, q, cap, _, _) := i in (c, q, cap).
Definition id_eqb (a b : nat * nat * nat) : bool :=
  let '(c, q, cap) := a in let '(c', q', cap') := b in Nat.eqb c c' && Nat.eqb q q' && Nat.eqb cap cap'.

Definition pub_matrix_ok (qtab : list query) (ops : list xop) : bool :=
  forallb (fun x => match x with
                    | XPub _ ev mi => list_eqb N.eqb (map (fun q => mres_code (matches q ev)) qtab) mi
                    | _ => true
                    end) ops.

Definition check (c : case) : verdict :=
  match c with
  | CMatch q ev res_i => mism (mres_code (matches q ev) =? res_i)%N 21
  | CPub qtab ops incs_i cstar solo_i =>
    let '(codes, fin, _) := run_x qtab init [] ops in
    let mi := model_incs fin in
    first_of [
      viol (delivery_ok ops incs_i) 1;
      viol (list_eqb inc_eqb (filter (fun i => Nat.eqb (inc_client i) cstar) incs_i) solo_i) 2;
      mism (pub_matrix_ok qtab ops) 21;
      mism (list_eqb N.eqb codes (flat_map xop_res ops)) 22;
      mism (list_eqb id_eqb (map inc_id mi) (map inc_id incs_i)) 25;
      mism (list_eqb (list_eqb Nat.eqb) (map inc_got mi) (map inc_got incs_i)) 23;
      mism (list_eqb N.eqb (map inc_err mi) (map inc_err incs_i)) 24 ]
  | CState qtab steps => first_of (run_s qtab init steps)
  end.
