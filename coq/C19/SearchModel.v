(* C19 (search half) — the key-value transaction indexer, state/txindex/kv/kv.go
   (AddBatch / Index / indexEvents / Get / Search / match / matchRange / key layout), and
   state/indexer/query_range.go (LookForRanges, QueryRange).  NO proofs here.

   Modelling decisions (each is tied to the real code by the differential harness
   harness/overlay/state/txindex/kv/verif_c19_search_test.go, observable 31):

   * A rendered DB key "f1/f2/…" is represented by the list of its '/'-separated segments
     (strings.Split(key, "/")).  The map string <-> non-empty segment list is a bijection, so
     nothing is lost: keyForEvent(tag, value, h, i) = split tag ++ split value ++ [dec h; dec i];
     a prefix scan with a prefix built by startKey (it always ends with the separator) selects
     exactly the keys whose segment list extends the prefix's segment list by at least one
     segment; isTagKey (exactly 3 separators) = 4 segments; extractValueFromKey = 2nd segment.
   * The transaction hash is abstract: a transaction carries a token [t_hash]; transactions with
     equal bytes have equal tokens.  The primary records (hash -> TxResult) and the event index
     live in the same LevelDB in the implementation; the model keeps them apart (a 32-byte hash
     is assumed never to begin with a scanned prefix "tag/").
   * DB Set overwrites: both stores are association lists with at most one entry per key.
   * A batch is applied sequentially (no read happens inside AddBatch).
   * Result sets are lists used as sets (the Go code keeps a map keyed by hash).
   * Ranges of LookForRanges are visited in order of first appearance of their key (Go iterates
     a map: any order; the result, a set intersection, does not depend on it).
   * NOT modelled (the model answers SPanic/unmodelled, the harness never generates them):
     float64 operands; a range mixing an integer and a TIME/DATE bound on the same key;
     int64 overflow of bound±1; a stored value that literally equals the %v rendering of a
     time.Time (an "=" condition with a TIME/DATE operand is modelled as "no key matches"). *)
From Coq Require Import String Ascii List ZArith Bool DecimalString.
From TM Require Import C19.Query.
Import ListNotations.
Open Scope Z_scope.

Definition hash := string.

Record attr := { a_key : string; a_val : string; a_index : bool }.
Record event := { e_type : string; e_attrs : list attr }.
(* abci.TxResult: Height, Index, Tx (through its hash token), Result.Code, Result.Events *)
Record txres := { t_hash : hash; t_height : Z; t_index : Z; t_code : Z; t_events : list event }.

Definition TxHashKey : string := "tx.hash".
Definition TxHeightKey : string := "tx.height".

(* ------------------------------------------------------------------ keys *)

Definition key := list string.

(* strings.Split(s, "/") *)
Fixpoint split_slash (s : string) : list string :=
  match s with
  | EmptyString => [EmptyString]
  | String c r =>
    if Ascii.eqb c "/"%char then EmptyString :: split_slash r
    else match split_slash r with
         | x :: xs => String c x :: xs
         | [] => [String c EmptyString]
         end
  end.

(* fmt "%d" *)
Definition dec (z : Z) : string := NilZero.string_of_int (Z.to_int z).

Fixpoint keq (a b : key) : bool :=
  match a, b with
  | [], [] => true
  | x :: a', y :: b' => String.eqb x y && keq a' b'
  | _, _ => false
  end.

(* the key's segments extend [p] by at least one segment: bytes.HasPrefix(key, join p ++ "/") *)
Fixpoint proper_prefix (p k : key) : bool :=
  match p, k with
  | [], _ :: _ => true
  | x :: p', y :: k' => String.eqb x y && proper_prefix p' k'
  | _, _ => false
  end.

(* keyForEvent(compositeTag, value, result) *)
Definition key_for_event (tag value : string) (r : txres) : key :=
  split_slash tag ++ split_slash value ++ [dec (t_height r); dec (t_index r)].
(* keyForHeight(result) = "tx.height/<h>/<h>/<i>" *)
Definition key_for_height (r : txres) : key :=
  key_for_event TxHeightKey (dec (t_height r)) r.

(* ------------------------------------------------------------------ store *)

Record store := { s_idx : list (key * hash); s_prim : list (hash * txres) }.
Definition empty_store : store := {| s_idx := []; s_prim := [] |}.

Definition set_idx (k : key) (h : hash) (idx : list (key * hash)) : list (key * hash) :=
  (k, h) :: filter (fun e => negb (keq (fst e) k)) idx.
Definition set_prim (h : hash) (r : txres) (pr : list (hash * txres)) : list (hash * txres) :=
  (h, r) :: filter (fun e => negb (String.eqb (fst e) h)) pr.

Fixpoint get_prim (h : hash) (pr : list (hash * txres)) : option txres :=
  match pr with
  | [] => None
  | (h', r) :: rest => if String.eqb h h' then Some r else get_prim h rest
  end.
(* TxIndex.Get *)
Definition get (st : store) (h : hash) : option txres := get_prim h (s_prim st).

(* ------------------------------------------------------------------ indexing *)

Definition is_empty (s : string) : bool := match s with EmptyString => true | _ => false end.

(* (composite tag, value) of the attributes that indexEvents writes a key for, in order *)
Definition indexed_attrs_of_event (e : event) : list (string * string) :=
  if is_empty (e_type e) then []
  else flat_map (fun a =>
         if is_empty (a_key a) then []
         else if a_index a then [((e_type e ++ "." ++ a_key a)%string, a_val a)] else [])
       (e_attrs e).
Definition indexed_attrs (r : txres) : list (string * string) :=
  flat_map indexed_attrs_of_event (t_events r).

(* what a transaction is indexed under: its event attributes, then its height *)
Definition ext_attrs (r : txres) : list (string * string) :=
  indexed_attrs r ++ [(TxHeightKey, dec (t_height r))].

(* indexEvents; then "index by height (always)"; then "index by hash (always)" *)
Definition add_one (st : store) (r : txres) : store :=
  {| s_idx := fold_left (fun idx tv => set_idx (key_for_event (fst tv) (snd tv) r) (t_hash r) idx)
                        (ext_attrs r) (s_idx st);
     s_prim := set_prim (t_hash r) r (s_prim st) |}.

(* TxIndex.AddBatch *)
Definition add_batch (st : store) (b : list txres) : store := fold_left add_one b st.

(* TxIndex.Index: a failed result does not overwrite an earlier successful one *)
Definition index_one (st : store) (r : txres) : store :=
  if negb (t_code r =? 0)
  then match get st (t_hash r) with
       | Some old => if t_code old =? 0 then st else add_one st r
       | None => add_one st r
       end
  else add_one st r.

Inductive iop := OBatch (b : list txres) | OIndex (r : txres).
Definition apply_op (st : store) (o : iop) : store :=
  match o with OBatch b => add_batch st b | OIndex r => index_one st r end.
Definition run_history (h : list iop) : store := fold_left apply_op h empty_store.
Definition op_txs (o : iop) : list txres := match o with OBatch b => b | OIndex r => [r] end.
Definition history_txs (h : list iop) : list txres := flat_map op_txs h.

(* ------------------------------------------------------------------ reference semantics *)

Definition vals_of (k : string) (l : list (string * string)) : list string :=
  map snd (filter (fun tv => String.eqb (fst tv) k) l).

Fixpoint smem (x : string) (l : list string) : bool :=
  match l with [] => false | y :: r => String.eqb x y || smem x r end.
Fixpoint sdedup (l : list string) : list string :=     (* keeps first occurrences *)
  match l with
  | [] => []
  | x :: r => x :: filter (fun y => negb (String.eqb y x)) (sdedup r)
  end.

(* map[string][]string of the attribute list: key -> values in order of appearance *)
Definition group (l : list (string * string)) : events :=
  map (fun k => (k, vals_of k l)) (sdedup (map fst l)).

(* the events of a transaction as the query matcher sees them (types/event_bus.go
   PublishEventTx restricted to what the indexer is asked to index: attributes with
   Index = true and non-empty type and key), plus tx.height and tx.hash *)
Definition tx_events (r : txres) : events :=
  group (ext_attrs r ++ [(TxHashKey, t_hash r)]).

(* ------------------------------------------------------------------ Search *)

(* strconv.ParseInt(s, 10, 64): optional sign, at least one digit, only digits, in range *)
Definition parse_int_go (s : string) : option Z :=
  let '(neg, body) :=
    match s with
    | String c r => if Ascii.eqb c "-"%char then (true, r)
                    else if Ascii.eqb c "+"%char then (false, r) else (false, s)
    | EmptyString => (false, s)
    end in
  match body with
  | EmptyString => None
  | _ => if all_digits body
         then let v := digits_val 0 body in
              if neg then (if v <=? max_int64 + 1 then Some (- v) else None)
              else (if v <=? max_int64 then Some v else None)
         else None
  end.

Inductive sres := SOk (hs : list hash) | SErr | SPanic.

(* lookForHash *)
Inductive hres := HNone | HFound (h : hash) | HPanic.
Fixpoint look_for_hash (q : query) : hres :=
  match q with
  | [] => HNone
  | c :: r => if String.eqb (c_key c) TxHashKey
              then match c_arg c with OStr s => HFound s | _ => HPanic end
              else look_for_hash r
  end.

(* lookForHeight: None = the type assertion Operand.(int64) panics *)
Fixpoint look_for_height (q : query) : option Z :=
  match q with
  | [] => Some 0
  | c :: r =>
    if String.eqb (c_key c) TxHeightKey && match c_op c with OpEq => true | _ => false end
    then match c_arg c with OInt z => Some z | _ => None end
    else look_for_height r
  end.

Definition is_range_op (o : opr) : bool :=
  match o with OpLe | OpGe | OpLt | OpGt => true | _ => false end.

Record qrange := { r_key : string; r_lo : option operand; r_hi : option operand;
                   r_inclo : bool; r_inchi : bool }.

(* the switch in LookForRanges: a later bound overwrites, an include flag is never reset *)
Definition apply_cond (c : cond) (r : qrange) : qrange :=
  match c_op c with
  | OpGt => {| r_key := r_key r; r_lo := Some (c_arg c); r_hi := r_hi r;
               r_inclo := r_inclo r; r_inchi := r_inchi r |}
  | OpGe => {| r_key := r_key r; r_lo := Some (c_arg c); r_hi := r_hi r;
               r_inclo := true; r_inchi := r_inchi r |}
  | OpLt => {| r_key := r_key r; r_lo := r_lo r; r_hi := Some (c_arg c);
               r_inclo := r_inclo r; r_inchi := r_inchi r |}
  | OpLe => {| r_key := r_key r; r_lo := r_lo r; r_hi := Some (c_arg c);
               r_inclo := r_inclo r; r_inchi := true |}
  | _ => r
  end.
Definition empty_range (k : string) : qrange :=
  {| r_key := k; r_lo := None; r_hi := None; r_inclo := false; r_inchi := false |}.

Fixpoint upd_range (c : cond) (rs : list qrange) : list qrange :=
  match rs with
  | [] => [apply_cond c (empty_range (c_key c))]
  | r :: rest => if String.eqb (r_key r) (c_key c) then apply_cond c r :: rest
                 else r :: upd_range c rest
  end.

(* LookForRanges: the ranges (the skipped indexes are exactly the range conditions) *)
Definition look_for_ranges (q : query) : list qrange :=
  fold_left (fun rs c => if is_range_op (c_op c) then upd_range c rs else rs) q [].

(* dbm.IteratePrefix *)
Definition scan (idx : list (key * hash)) (p : key) : list (key * hash) :=
  filter (fun e => proper_prefix p (fst e)) idx.

Definition is_tag_key (k : key) : bool := Nat.eqb (List.length k) 4.
Definition extract_value (k : key) : string := nth 1 k EmptyString.

(* QueryRange.LowerBoundValue / UpperBoundValue on the integer path *)
Inductive rkind := RInt (lo hi : option Z) | RTime | RUnmodelled.
Definition range_kind (r : qrange) : rkind :=
  let lo := match r_lo r with
            | None => Some None
            | Some (OInt z) => Some (Some (if r_inclo r then z else z + 1))
            | _ => None end in
  let hi := match r_hi r with
            | None => Some None
            | Some (OInt z) => Some (Some (if r_inchi r then z else z - 1))
            | _ => None end in
  let any := match r_lo r with Some b => Some b | None => r_hi r end in
  match any with
  | Some (OInt _) => match lo, hi with Some l, Some h => RInt l h | _, _ => RUnmodelled end
  | Some (OTime _) =>
    match r_lo r, r_hi r with
    | Some (OInt _), _ | _, Some (OInt _) => RUnmodelled
    | _, _ => RTime
    end
  | _ => RUnmodelled
  end.

(* the hashes collected by one matchRange scan (tmpHashes); None = unmodelled *)
Definition range_hits (st : store) (r : qrange) : option (list hash) :=
  match range_kind r with
  | RInt lo hi =>
    Some (flat_map (fun e =>
            if is_tag_key (fst e) then
              match parse_int_go (extract_value (fst e)) with
              | Some v =>
                if match lo with Some l => l <=? v | None => true end
                   && match hi with Some h => v <=? h | None => true end
                then [snd e] else []
              | None => []
              end
            else [])
          (scan (s_idx st) (split_slash (r_key r))))
  | RTime => Some []             (* AnyBound is a time.Time: nothing is ever included *)
  | RUnmodelled => None
  end.

(* fmt "%v" of an operand inside startKey; None: nothing can match (see header) *)
Definition render_operand (a : operand) : option (list string) :=
  match a with
  | OStr s => Some (split_slash s)
  | OInt z => Some [dec z]
  | OTime _ => None
  | ONone => Some ["<nil>"%string]
  end.

(* the hashes collected by one match scan (tmpHashes), [height] = lookForHeight *)
Definition cond_hits (st : store) (height : Z) (c : cond) : list hash :=
  match c_op c with
  | OpEq =>
    match render_operand (c_arg c) with
    | Some segs =>
      map snd (scan (s_idx st)
                 (split_slash (c_key c) ++ segs ++ (if 0 <? height then [dec height] else [])))
    | None => []
    end
  | OpExists => map snd (scan (s_idx st) (split_slash (c_key c)))
  | OpContains =>
    flat_map (fun e =>
      if is_tag_key (fst e) then
        match c_arg c with
        | OStr s => if str_contains s (extract_value (fst e)) then [snd e] else []
        | _ => []
        end
      else [])
    (scan (s_idx st) (split_slash (c_key c)))
  | _ => []      (* range operators are handled before *)
  end.

Definition is_nil (l : list hash) : bool := match l with [] => true | _ => false end.

(* the tail of match / matchRange: what is returned given the freshly scanned tmpHashes *)
Definition step_result (first : bool) (filtered tmp : list hash) : list hash :=
  if negb first && is_nil filtered then filtered
  else if is_nil tmp || first then tmp
  else filter (fun h => smem h tmp) filtered.

(* both loops of Search: hashesInitialized, filteredHashes, break on an empty first result *)
Fixpoint run_steps (tmps : list (list hash)) (init : bool) (f : list hash) : bool * list hash :=
  match tmps with
  | [] => (init, f)
  | tmp :: rest =>
    if init then run_steps rest true (step_result false f tmp)
    else let f' := step_result true f tmp in
         if is_nil f' then (true, f') else run_steps rest true f'
  end.

Fixpoint all_some {A} (l : list (option A)) : option (list A) :=
  match l with
  | [] => Some []
  | Some x :: r => match all_some r with Some xs => Some (x :: xs) | None => None end
  | None :: _ => None
  end.

(* TxIndex.Search *)
Definition search (st : store) (q : query) : sres :=
  match look_for_hash q with
  | HPanic => SPanic
  | HFound h => match get st h with Some r => SOk [t_hash r] | None => SOk [] end
  | HNone =>
    match all_some (map (range_hits st) (look_for_ranges q)) with
    | None => SPanic
    | Some rhits =>
      let '(init1, f1) := run_steps rhits false [] in
      match look_for_height q with
      | None => SPanic
      | Some height =>
        let others := filter (fun c => negb (is_range_op (c_op c))) q in
        let '(_, f2) := run_steps (map (cond_hits st height) others) init1 f1 in
        SOk (map (fun h => match get st h with Some r => t_hash r | None => "nil"%string end)
                 (sdedup f2))
      end
    end
  end.
