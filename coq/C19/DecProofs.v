(* C19 (search half) — the decimal rendering [dec] (fmt "%d": heights, indices, integer operands)
   against the two integer readers of the models: the pub/sub matcher's value_as_int
   (numRegex.FindString + strconv.ParseInt / ParseFloat, Query.v) and the indexers'
   parse_int_go (strconv.ParseInt(v, 10, 64), SearchModel.v).

   Main results:
     dec_NumOK      : 0 <= z <= MaxInt64 -> NumOK (dec z)
     NumOK_dec_iff  : NumOK (dec z) <-> 0 <= z <= MaxInt64
     NumOK_canon    : NumOK v <-> canon v = true        (canon: a decidable, purely syntactic test:
                      non-empty, digits only, no leading zero except "0" itself, value <= MaxInt64)
     canon_dec      : canon v = true -> dec (digits_val 0 v) = v
   and the behaviour of both readers on the non-canonical numerals an application can emit:
   leading zeros, a sign, values above MaxInt64 (digits_read, plus_read, minus_read, and the
   closed instances at the end). *)
From Coq Require Import String Ascii List ZArith Bool Lia
     DecimalString DecimalZ DecimalPos DecimalN Decimal.
From TM Require Import C19.Query C19.SearchModel C19.SearchProofs.
Import ListNotations.
Open Scope Z_scope.

(* ------------------------------------------------------------------ digit lists *)

Definition ustr (d : uint) : string := NilEmpty.string_of_uint d.

(* value of a digit list, most significant digit first, with accumulator (= digits_val) *)
Fixpoint uval (acc : Z) (d : uint) : Z :=
  match d with
  | Nil => acc
  | D0 l => uval (10 * acc + 0) l
  | D1 l => uval (10 * acc + 1) l
  | D2 l => uval (10 * acc + 2) l
  | D3 l => uval (10 * acc + 3) l
  | D4 l => uval (10 * acc + 4) l
  | D5 l => uval (10 * acc + 5) l
  | D6 l => uval (10 * acc + 6) l
  | D7 l => uval (10 * acc + 7) l
  | D8 l => uval (10 * acc + 8) l
  | D9 l => uval (10 * acc + 9) l
  end.

Lemma digits_val_ustr : forall d acc, digits_val acc (ustr d) = uval acc d.
Proof.
  unfold ustr. induction d; intro acc;
    cbn [NilEmpty.string_of_uint digits_val uval]; [reflexivity | rewrite IHd; reflexivity ..].
Qed.

Lemma of_uint_acc_val : forall l p, Z.pos (Pos.of_uint_acc l p) = uval (Z.pos p) l.
Proof.
  induction l; intro p; cbn [Pos.of_uint_acc uval]; [reflexivity | rewrite IHl; f_equal; lia ..].
Qed.

Lemma of_uint_val : forall d, Z.of_N (Pos.of_uint d) = uval 0 d.
Proof.
  induction d; cbn [Pos.of_uint uval]; [reflexivity | exact IHd | ..];
    cbn [Z.of_N]; rewrite of_uint_acc_val; reflexivity.
Qed.

Lemma uval_to_uint : forall p, uval 0 (Pos.to_uint p) = Z.pos p.
Proof. intro p. rewrite <- of_uint_val, DecimalPos.Unsigned.of_to. reflexivity. Qed.

Lemma all_digits_ustr : forall d, all_digits (ustr d) = true.
Proof.
  unfold ustr. induction d; cbn [NilEmpty.string_of_uint all_digits];
    [reflexivity | rewrite IHd; reflexivity ..].
Qed.

Lemma ustr_nonempty : forall d, d <> Nil -> ustr d <> EmptyString.
Proof. intros d N. destruct d; [contradiction | discriminate ..]. Qed.

(* ------------------------------------------------------------------ dec on non-negative / negative integers *)

Lemma dec_0 : dec 0 = "0"%string.
Proof. reflexivity. Qed.

Lemma nz_ustr : forall d, d <> Nil -> NilZero.string_of_uint d = ustr d.
Proof. intros d N. destruct d; [contradiction | reflexivity ..]. Qed.

Lemma dec_pos : forall p, dec (Z.pos p) = ustr (Pos.to_uint p).
Proof.
  intro p. unfold dec. cbn [Z.to_int NilZero.string_of_int].
  apply nz_ustr, DecimalPos.Unsigned.to_uint_nonnil.
Qed.

Lemma dec_neg : forall p, dec (Z.neg p) = String "-" (ustr (Pos.to_uint p)).
Proof.
  intro p. unfold dec. cbn [Z.to_int NilZero.string_of_int].
  rewrite nz_ustr by apply DecimalPos.Unsigned.to_uint_nonnil. reflexivity.
Qed.

(* ------------------------------------------------------------------ both readers on strings of digits *)

Lemma digit_not_dot : forall c, is_digit c = true -> Ascii.eqb c "."%char = false.
Proof.
  intros c D. destruct (Ascii.eqb_spec c "."%char) as [->|]; [discriminate D | reflexivity].
Qed.

Lemma digit_numch : forall c, is_digit c = true -> is_numch c = true.
Proof. intros c D. unfold is_numch. rewrite D. reflexivity. Qed.

Lemma take_run_digits : forall s, all_digits s = true -> take_run s = s.
Proof.
  induction s as [|c r IH]; cbn [all_digits take_run]; intro A; [reflexivity|].
  apply andb_true_iff in A as [A1 A2]. rewrite (digit_numch _ A1), IH by exact A2. reflexivity.
Qed.

Lemma num_filter_digits : forall s, all_digits s = true -> num_filter s = s.
Proof.
  intros [|c r] A; [reflexivity|]. pose proof A as A'. cbn [all_digits] in A'.
  apply andb_true_iff in A' as [A1 _]. cbn [num_filter]. rewrite (digit_numch _ A1).
  apply take_run_digits. exact A.
Qed.

Lemma no_dot_digits : forall s, all_digits s = true -> has_char "."%char s = false.
Proof.
  unfold has_char. induction s as [|c r IH]; intro A; [reflexivity|].
  cbn [all_digits] in A. apply andb_true_iff in A as [A1 A2].
  cbn [str_contains String.prefix]. rewrite (IH A2), orb_false_r.
  destruct (ascii_dec "."%char c) as [<-|_]; [discriminate A1 | reflexivity].
Qed.

(* the integer a string of digits is read as — by the matcher and by strconv.ParseInt alike,
   leading zeros or not; above MaxInt64 both fail (the matcher's Matches returns an error, the
   indexer's range scan skips the key) *)
Definition read_digits (s : string) : option Z :=
  if digits_val 0 s <=? max_int64 then Some (digits_val 0 s) else None.

Lemma value_as_int_digits : forall s, all_digits s = true -> s <> EmptyString ->
  value_as_int s = read_digits s.
Proof.
  intros s A NE. unfold value_as_int. rewrite (num_filter_digits _ A), (no_dot_digits _ A).
  unfold parse_int_digits, read_digits. rewrite A. destruct s; [contradiction | reflexivity].
Qed.

Lemma digit_not_sign : forall c, is_digit c = true ->
  Ascii.eqb c "-"%char = false /\ Ascii.eqb c "+"%char = false.
Proof.
  intros c D. split.
  - destruct (Ascii.eqb_spec c "-"%char) as [->|]; [discriminate D | reflexivity].
  - destruct (Ascii.eqb_spec c "+"%char) as [->|]; [discriminate D | reflexivity].
Qed.

Lemma parse_int_go_digits : forall s, all_digits s = true -> s <> EmptyString ->
  parse_int_go s = read_digits s.
Proof.
  intros [|c r] A NE; [contradiction|]. pose proof A as A'. cbn [all_digits] in A'.
  apply andb_true_iff in A' as [A1 _]. destruct (digit_not_sign _ A1) as [M P].
  unfold parse_int_go, read_digits. rewrite M, P, A. reflexivity.
Qed.

Lemma digits_read : forall s, all_digits s = true -> s <> EmptyString ->
  value_as_int s = read_digits s /\ parse_int_go s = read_digits s.
Proof. intros s A NE. split; [apply value_as_int_digits | apply parse_int_go_digits]; assumption. Qed.

(* '+' followed by digits: both readers ignore the sign *)
Lemma plus_read : forall s, all_digits s = true -> s <> EmptyString ->
  value_as_int (String "+" s) = read_digits s /\ parse_int_go (String "+" s) = read_digits s.
Proof.
  intros s A NE. split.
  - rewrite <- (value_as_int_digits _ A NE). unfold value_as_int.
    change (num_filter (String "+" s)) with (num_filter s). reflexivity.
  - unfold parse_int_go, read_digits.
    change (Ascii.eqb "+" "-") with false. change (Ascii.eqb "+" "+") with true. cbv iota.
    rewrite A. destruct s; [contradiction | reflexivity].
Qed.

(* '-' followed by digits: the matcher's regular expression drops the sign (it reads |z|), the
   indexer's strconv.ParseInt keeps it (it reads -|z|, down to MinInt64) *)
Lemma minus_read : forall s, all_digits s = true -> s <> EmptyString ->
  value_as_int (String "-" s) = read_digits s /\
  parse_int_go (String "-" s) =
    if digits_val 0 s <=? max_int64 + 1 then Some (- digits_val 0 s) else None.
Proof.
  intros s A NE. split.
  - rewrite <- (value_as_int_digits _ A NE). unfold value_as_int.
    change (num_filter (String "-" s)) with (num_filter s). reflexivity.
  - unfold parse_int_go. change (Ascii.eqb "-" "-") with true. cbv iota.
    rewrite A. destruct s; [contradiction | reflexivity].
Qed.

Lemma digits_val_mono : forall s acc, all_digits s = true -> 0 <= acc -> acc <= digits_val acc s.
Proof.
  induction s as [|c r IH]; intros acc A L; cbn [digits_val]; [lia|].
  cbn [all_digits] in A. apply andb_true_iff in A as [A1 A2].
  assert (D : 0 <= digit_val c).
  { unfold is_digit in A1. apply andb_true_iff in A1 as [A1 _]. apply Nat.leb_le in A1.
    unfold digit_val. lia. }
  specialize (IH (10 * acc + digit_val c) A2). lia.
Qed.

(* ------------------------------------------------------------------ dec z is NumOK *)

Lemma dec_pos_read : forall p,
  value_as_int (dec (Z.pos p)) = (if Z.pos p <=? max_int64 then Some (Z.pos p) else None) /\
  parse_int_go (dec (Z.pos p)) = (if Z.pos p <=? max_int64 then Some (Z.pos p) else None).
Proof.
  intro p. rewrite dec_pos.
  destruct (digits_read (ustr (Pos.to_uint p)) (all_digits_ustr _)
              (ustr_nonempty _ (DecimalPos.Unsigned.to_uint_nonnil p))) as [V P].
  rewrite V, P. unfold read_digits. rewrite digits_val_ustr, uval_to_uint. auto.
Qed.

(* the lemma C19_search_exact_partial / C19_tx_search_exact_ranges_partial /
   C19_block_search_exact_partial were waiting for *)
Theorem dec_NumOK : forall z, 0 <= z <= max_int64 -> NumOK (dec z).
Proof.
  intros z [L U]. exists z. split; [reflexivity|]. destruct z as [|p|p]; [| |lia].
  - split; reflexivity.
  - destruct (dec_pos_read p) as [V P]. rewrite V, P.
    destruct (Z.leb_spec (Z.pos p) max_int64); [auto | lia].
Qed.

(* ... and only then: a negative height is rendered "-n", which the matcher reads as n; a value
   above MaxInt64 is read by neither *)
Theorem NumOK_dec_iff : forall z, NumOK (dec z) <-> 0 <= z <= max_int64.
Proof.
  intro z. split; [|apply dec_NumOK].
  intros [z' [E [V P]]]. apply dec_inj in E. subst z'. destruct z as [|p|p].
  - unfold max_int64. lia.
  - destruct (dec_pos_read p) as [_ P']. rewrite P' in P.
    destruct (Z.leb_spec (Z.pos p) max_int64); [lia | discriminate P].
  - exfalso. rewrite dec_neg in V.
    destruct (minus_read (ustr (Pos.to_uint p)) (all_digits_ustr _)
                (ustr_nonempty _ (DecimalPos.Unsigned.to_uint_nonnil p))) as [V' _].
    rewrite V' in V. unfold read_digits in V. rewrite digits_val_ustr, uval_to_uint in V.
    destruct (Z.pos p <=? max_int64); [injection V as V; lia | discriminate V].
Qed.

(* the matcher alone reads a rendering back exactly in that range *)
Lemma value_as_int_dec : forall n, value_as_int (dec n) = Some n <-> 0 <= n <= max_int64.
Proof.
  intro n. split.
  - intro V. destruct n as [|p|p].
    + unfold max_int64. lia.
    + destruct (dec_pos_read p) as [V' _]. rewrite V' in V.
      destruct (Z.leb_spec (Z.pos p) max_int64); [lia | discriminate V].
    + exfalso. rewrite dec_neg in V.
      destruct (minus_read (ustr (Pos.to_uint p)) (all_digits_ustr _)
                  (ustr_nonempty _ (DecimalPos.Unsigned.to_uint_nonnil p))) as [V' _].
      rewrite V' in V. unfold read_digits in V. rewrite digits_val_ustr, uval_to_uint in V.
      destruct (Z.pos p <=? max_int64); [injection V as V; lia | discriminate V].
  - intro R. destruct (dec_NumOK n R) as [z [E [V _]]]. apply dec_inj in E. subst z. exact V.
Qed.

(* ------------------------------------------------------------------ the syntactic test *)

(* canonical non-negative decimal within int64: what fmt "%d" prints for 0 .. MaxInt64 *)
Definition canon (s : string) : bool :=
  match s with
  | EmptyString => false
  | String c r =>
    all_digits s && (negb (Ascii.eqb c "0"%char) || is_empty r) && (digits_val 0 s <=? max_int64)
  end.

(* string of digits -> digit list *)
Definition udig (c : ascii) (d : uint) : uint :=
  match c with
  | "0" => D0 d | "1" => D1 d | "2" => D2 d | "3" => D3 d | "4" => D4 d
  | "5" => D5 d | "6" => D6 d | "7" => D7 d | "8" => D8 d | _ => D9 d
  end%char.
Fixpoint str_uint (s : string) : uint :=
  match s with EmptyString => Nil | String c r => udig c (str_uint r) end.

Lemma ustr_udig : forall c d, is_digit c = true -> ustr (udig c d) = String c (ustr d).
Proof.
  intros c d. destruct c as [[|] [|] [|] [|] [|] [|] [|] [|]]; intro H;
    first [reflexivity | vm_compute in H; discriminate H].
Qed.

Lemma unorm_udig : forall c d, is_digit c = true -> Ascii.eqb c "0"%char = false ->
  unorm (udig c d) = udig c d.
Proof.
  intros c d. destruct c as [[|] [|] [|] [|] [|] [|] [|] [|]]; intros H Z;
    first [reflexivity | vm_compute in H; discriminate H | vm_compute in Z; discriminate Z].
Qed.

Lemma udig_zero : forall c, is_digit c = true -> unorm (udig c Nil) = udig c Nil.
Proof.
  intros c. destruct c as [[|] [|] [|] [|] [|] [|] [|] [|]]; intro H;
    first [reflexivity | vm_compute in H; discriminate H].
Qed.

Lemma ustr_str_uint : forall s, all_digits s = true -> ustr (str_uint s) = s.
Proof.
  induction s as [|c r IH]; cbn [all_digits str_uint]; intro A; [reflexivity|].
  apply andb_true_iff in A as [A1 A2]. rewrite (ustr_udig _ _ A1), (IH A2). reflexivity.
Qed.

(* a digit list without superfluous leading zero is what dec prints for its value *)
Lemma dec_uval : forall d, unorm d = d -> dec (uval 0 d) = ustr d.
Proof.
  intros d U. rewrite <- of_uint_val. pose proof (DecimalPos.Unsigned.to_of d) as T. rewrite U in T.
  destruct (Pos.of_uint d) as [|p]; cbn [N.to_uint Z.of_N] in *.
  - rewrite <- T. reflexivity.
  - rewrite dec_pos, T. reflexivity.
Qed.

Theorem canon_dec : forall v, canon v = true -> dec (digits_val 0 v) = v.
Proof.
  intros [|c r] C; [discriminate C|]. unfold canon in C.
  apply andb_true_iff in C as [C _]. apply andb_true_iff in C as [A H].
  rewrite <- (ustr_str_uint _ A) at 2. rewrite <- (ustr_str_uint _ A) at 1.
  rewrite digits_val_ustr. apply dec_uval.
  pose proof A as A'. cbn [all_digits] in A'. apply andb_true_iff in A' as [A1 _].
  cbn [str_uint]. apply orb_true_iff in H as [H|H].
  - apply unorm_udig; [exact A1 | apply negb_true_iff; exact H].
  - destruct r; [|discriminate H]. apply udig_zero. exact A1.
Qed.

Lemma unorm_D0 : forall x y, unorm x = D0 y -> y = Nil.
Proof.
  induction x; cbn [unorm]; intros y E; try discriminate E; [|eauto].
  injection E as <-. reflexivity.
Qed.

Lemma canon_to_uint : forall p, Z.pos p <= max_int64 -> canon (ustr (Pos.to_uint p)) = true.
Proof.
  intros p L.
  assert (U : unorm (Pos.to_uint p) = Pos.to_uint p).
  { rewrite <- (DecimalPos.Unsigned.to_of (Pos.to_uint p)), DecimalPos.Unsigned.of_to. reflexivity. }
  pose proof (DecimalPos.Unsigned.to_uint_nonzero p) as NZ. pose proof (uval_to_uint p) as V.
  pose proof (all_digits_ustr (Pos.to_uint p)) as A.
  assert (B : digits_val 0 (ustr (Pos.to_uint p)) <=? max_int64 = true)
    by (rewrite digits_val_ustr, V; apply Z.leb_le; exact L).
  destruct (Pos.to_uint p) as [|d|d|d|d|d|d|d|d|d|d] eqn:E;
    try (unfold canon; change (ustr ?x) with (NilEmpty.string_of_uint x) in *;
         cbn [NilEmpty.string_of_uint] in *; rewrite A, B; reflexivity).
  - discriminate U.
  - exfalso. apply NZ. cbn [unorm] in U. apply unorm_D0 in U. subst d. reflexivity.
Qed.

(* the semantic premise of the search theorems is the syntactic test *)
Theorem NumOK_canon : forall v, NumOK v <-> canon v = true.
Proof.
  intro v. split.
  - intros N. pose proof N as [z [E _]]. subst v. apply NumOK_dec_iff in N as [L U].
    destruct z as [|p|p]; [reflexivity | | lia]. rewrite dec_pos. apply canon_to_uint. exact U.
  - intro C. exists (digits_val 0 v). split; [symmetry; apply canon_dec; exact C|].
    destruct v as [|c r]; [discriminate C|]. unfold canon in C.
    apply andb_true_iff in C as [C B]. apply andb_true_iff in C as [A _].
    destruct (digits_read (String c r) A) as [V P]; [discriminate|].
    rewrite V, P. unfold read_digits. rewrite B. auto.
Qed.

Corollary canon_dec_iff : forall z, canon (dec z) = true <-> 0 <= z <= max_int64.
Proof. intro z. rewrite <- NumOK_canon. apply NumOK_dec_iff. Qed.

(* a value that is not a canonical decimal is not the rendering of the integer the matcher
   reads it as: the indexer's key-equality scan for "= n" cannot find it *)
Corollary noncanon_not_rendered : forall v n,
  canon v = false -> value_as_int v = Some n -> v <> dec n.
Proof.
  intros v n C V E. subst v. apply value_as_int_dec, canon_dec_iff in V. congruence.
Qed.

(* ------------------------------------------------------------------ non-canonical numerals
   (closed instances; the same inputs are replayed on strconv.ParseInt and on the real
   Query.Matches by the scratch test quoted in the report) *)

Example numerals_canonical :
  canon "0" = true /\ canon "7" = true /\ canon "9223372036854775807" = true /\
  dec 9223372036854775807 = "9223372036854775807"%string /\
  value_as_int "9223372036854775807" = Some max_int64 /\
  parse_int_go "9223372036854775807" = Some max_int64.
Proof. vm_compute. auto 10. Qed.

Example numerals_noncanonical :
  (* leading zeros: both read 7, the rendering of 7 is "7" *)
  canon "007" = false /\ value_as_int "007" = Some 7 /\ parse_int_go "007" = Some 7 /\
  canon "00" = false /\ value_as_int "00" = Some 0 /\ parse_int_go "00" = Some 0 /\
  (* '+': both read 5 *)
  canon "+5" = false /\ value_as_int "+5" = Some 5 /\ parse_int_go "+5" = Some 5 /\
  (* '-': the matcher drops the sign *)
  canon "-0" = false /\ value_as_int "-0" = Some 0 /\ parse_int_go "-0" = Some 0 /\
  canon "-5" = false /\ value_as_int "-5" = Some 5 /\ parse_int_go "-5" = Some (-5) /\
  (* MaxInt64 + 1: neither reads it; MinInt64: only ParseInt does *)
  canon "9223372036854775808" = false /\ value_as_int "9223372036854775808" = None /\
  parse_int_go "9223372036854775808" = None /\
  value_as_int "-9223372036854775808" = None /\
  parse_int_go "-9223372036854775808" = Some (-9223372036854775808) /\
  (* empty / digit-free: neither reads it *)
  canon "" = false /\ value_as_int "" = None /\ parse_int_go "" = None /\
  value_as_int "abc" = None /\ parse_int_go "abc" = None /\
  (* embedded digits, float-like: only the matcher reads them *)
  value_as_int "x12y" = Some 12 /\ parse_int_go "x12y" = None /\
  value_as_int "12." = Some 12 /\ parse_int_go "12." = None /\
  value_as_int "5.0" = Some 5 /\ parse_int_go "5.0" = None.
Proof. vm_compute. repeat split. Qed.

Lemma NumOK_is_canonical : forall v : string,
  (NumOK v <-> canon v = true) /\ (canon v = true -> dec (digits_val 0 v) = v).
Proof. intro v. split; [apply NumOK_canon | apply canon_dec]. Qed.

Lemma numeral_readers : forall s : string, all_digits s = true -> s <> EmptyString ->
  value_as_int s = read_digits s /\ parse_int_go s = read_digits s /\
  value_as_int (String "+" s) = read_digits s /\ parse_int_go (String "+" s) = read_digits s /\
  value_as_int (String "-" s) = read_digits s /\
  parse_int_go (String "-" s) =
    (if digits_val 0 s <=? max_int64 + 1 then Some (- digits_val 0 s) else None).
Proof.
  intros s A NE. destruct (digits_read s A NE) as [A1 A2]. destruct (plus_read s A NE) as [B1 B2].
  destruct (minus_read s A NE) as [C1 C2]. auto 6.
Qed.

Print Assumptions dec_NumOK.
Print Assumptions NumOK_canon.
