(* C19 (remote subscribers, finding F90) — the goroutine of rpc/core/events.go Subscribe that
   forwards a pub/sub Subscription to a websocket connection, composed with the buffered
   Subscription it reads (libs/pubsub: capacity, ErrOutOfCapacity — the behaviour that
   C19_delivery_exact proves of Model.v: the messages pushed are the matching publications in
   order, or the subscription is cancelled after a strict prefix) and with the connection's
   bounded write queue (rpc/jsonrpc/server/ws_handler.go: WriteRPCResponse blocks until there
   is room, the context ends or the connection stops; TryWriteRPCResponse never blocks).
   NO proofs here.

   Matching publications are numbered 0, 1, 2, ...  A schedule is ANY list of steps:
     SPub      a matching publication reaches the subscription (buffer full: cancelled)
     SExit     pub/sub stops ("Tendermint exited"): the subscription is cancelled
     STake     the forwarder's select takes the next buffered message and writes it to the
               connection (no room: it stays blocked in WriteRPCResponse holding it)
     SCancel   the forwarder's select takes <-sub.Cancelled()  (when both are ready Go chooses:
               the schedule decides)
     SWrite    a blocked write finds room
     STimeout  the 10 s context of a blocked write ends
     SRead     the write routine / socket / remote client take the next queued response
   A step that is not enabled leaves the state unchanged.

   [repaired = false] transcribes events.go as it is: the cancellation notice goes through
   TryWriteRPCResponse (dropped when the queue is full); an event whose write times out is
   dropped and the loop goes on (CloseOnSlowClient = false) or a notice is TRIED and the
   goroutine ends (true).
   [repaired = true] is fixes/F90-ws-subscriber-told.diff: the notice is written with a
   blocking, bounded write, and if that fails the connection is stopped; an event whose write
   times out ends the subscription (Unsubscribe) with such a notice, or stops the connection at
   once when CloseOnSlowClient is set. *)
From Coq Require Import List Arith Bool.
Import ListNotations.

Inductive item := Ev (m : nat) | Notice.
Inductive fwst := FIdle | FHold (m : nat) | FNotice | FDone.

Record wcfg := { q_cap : nat; s_cap : nat; close_slow : bool; repaired : bool }.

Record ws := {
  w_pub : nat;             (* matching publications so far *)
  w_out : list nat;        (* sub.out *)
  w_canc : bool;           (* the subscription is cancelled (sub.Cancelled() closed) *)
  w_fw : fwst;             (* the forwarder goroutine *)
  w_queue : list item;     (* wsConnection.writeChan *)
  w_client : list item;    (* what the remote client has received *)
  w_open : bool }.         (* the connection *)

Definition ws_init : ws :=
  {| w_pub := 0; w_out := []; w_canc := false; w_fw := FIdle; w_queue := []; w_client := [];
     w_open := true |}.

Inductive wstep := SPub | SExit | STake | SCancel | SWrite | STimeout | SRead.

Definition room (c : wcfg) (s : ws) : bool := length (w_queue s) <? q_cap c.

Definition set_fw (s : ws) (f : fwst) : ws :=
  {| w_pub := w_pub s; w_out := w_out s; w_canc := w_canc s; w_fw := f; w_queue := w_queue s;
     w_client := w_client s; w_open := w_open s |}.
Definition enqueue (s : ws) (x : item) (f : fwst) : ws :=
  {| w_pub := w_pub s; w_out := w_out s; w_canc := w_canc s; w_fw := f;
     w_queue := w_queue s ++ [x]; w_client := w_client s; w_open := w_open s |}.
Definition set_canc (s : ws) : ws :=
  {| w_pub := w_pub s; w_out := w_out s; w_canc := true; w_fw := w_fw s; w_queue := w_queue s;
     w_client := w_client s; w_open := w_open s |}.
(* wsc.Stop(): the connection is closed, queued responses are never written *)
Definition stop_conn (s : ws) : ws :=
  {| w_pub := w_pub s; w_out := w_out s; w_canc := true; w_fw := FDone; w_queue := w_queue s;
     w_client := w_client s; w_open := false |}.

(* the notice: TryWriteRPCResponse (original) / blocking bounded WriteRPCResponse (repaired) *)
Definition send_notice (c : wcfg) (s : ws) : ws :=
  if room c s then enqueue s Notice FDone
  else if repaired c then set_fw s FNotice else set_fw s FDone.

Definition step (c : wcfg) (s : ws) (a : wstep) : ws :=
  match a with
  | SPub =>
    if w_canc s
    then {| w_pub := S (w_pub s); w_out := w_out s; w_canc := true; w_fw := w_fw s;
            w_queue := w_queue s; w_client := w_client s; w_open := w_open s |}
    else if length (w_out s) <? s_cap c
    then {| w_pub := S (w_pub s); w_out := w_out s ++ [w_pub s]; w_canc := false; w_fw := w_fw s;
            w_queue := w_queue s; w_client := w_client s; w_open := w_open s |}
    else {| w_pub := S (w_pub s); w_out := w_out s; w_canc := true; w_fw := w_fw s;
            w_queue := w_queue s; w_client := w_client s; w_open := w_open s |}
  | SExit => set_canc s
  | STake =>
    match w_fw s, w_out s with
    | FIdle, m :: r =>
      let s' := {| w_pub := w_pub s; w_out := r; w_canc := w_canc s; w_fw := FIdle;
                   w_queue := w_queue s; w_client := w_client s; w_open := w_open s |} in
      if room c s then enqueue s' (Ev m) FIdle else set_fw s' (FHold m)
    | _, _ => s
    end
  | SCancel =>
    match w_fw s with
    | FIdle => if w_canc s then send_notice c s else s
    | _ => s
    end
  | SWrite =>
    match w_fw s with
    | FHold m => if room c s then enqueue s (Ev m) FIdle else s
    | FNotice => if room c s then enqueue s Notice FDone else s
    | _ => s
    end
  | STimeout =>
    match w_fw s with
    | FHold m =>
      if repaired c
      then (if close_slow c then stop_conn s else send_notice c (set_canc s))
      else (if close_slow c then send_notice c s else set_fw s FIdle)   (* the event is dropped *)
    | FNotice => stop_conn s
    | _ => s
    end
  | SRead =>
    if w_open s
    then match w_queue s with
         | x :: r => {| w_pub := w_pub s; w_out := w_out s; w_canc := w_canc s; w_fw := w_fw s;
                        w_queue := r; w_client := w_client s ++ [x]; w_open := true |}
         | [] => s
         end
    else s
  end.

Definition run (c : wcfg) (steps : list wstep) : ws := fold_left (step c) steps ws_init.

(* the event numbers among responses *)
Definition evs (l : list item) : list nat :=
  flat_map (fun i => match i with Ev m => [m] | Notice => [] end) l.
Definition has_notice (l : list item) : bool :=
  existsb (fun i => match i with Notice => true | _ => false end) l.

(* nothing will ever happen again unless a new publication arrives: the client has taken what
   was queued (or the connection is closed), the forwarder is gone, or idle with an empty
   buffer on a live subscription.  (A blocked write is NOT quiescent: its context ends.) *)
Definition quiescent (s : ws) : bool :=
  (match w_queue s with [] => true | _ => negb (w_open s) end) &&
  match w_fw s with
  | FDone => true
  | FIdle => match w_out s with [] => negb (w_canc s) | _ => false end
  | _ => false
  end.

(* the property, on the client's own observation: its matching events in order, each once; all
   of them, or it holds the cancellation notice, or its connection was closed *)
Definition observation_ok (s : ws) : Prop :=
  exists j, evs (w_client s) = seq 0 j /\ j <= w_pub s /\
    (j = w_pub s \/ has_notice (w_client s) = true \/ w_open s = false).
