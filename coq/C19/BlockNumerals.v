(* C19 (search half, blocks) — integer conditions on ARBITRARY attribute values in the block
   indexer (state/indexer/block/kv, Search as repaired for F47); the counterpart of
   SearchNumerals.v.  No premise on the indexed values:
     key = n          Search: prefix scan for orderedcode(key, fmt("%v", n)): the LITERAL "dec n"
     key < <= > >= n  Search: strconv.ParseInt of the whole value, unreadable values skipped
   against the pub/sub matcher (first run of [0-9.] of each value; an unreadable value aborts).
   Consequences: range conditions are exact wherever both readers read every value of the key
   alike (ReadAlike: canonical decimals, leading zeros, '+'); "key = n" misses every
   non-canonical numeral the matcher reads as n (known class 37). *)
From Coq Require Import String Ascii List ZArith Bool Lia Sorted.
From TM Require Import C19.Query C19.SearchModel C19.SearchProofs C19.DecProofs
     C19.BlockModel C19.BlockProofs C19.SearchRangeProofs C19.SearchNumerals.
Import ListNotations.
Open Scope Z_scope.

Lemma bone_bound : forall k op z, is_range_op op = true ->
  let r := single {| c_key := k; c_op := op; c_arg := OInt z |} in
  exists lo hi, lower_value r = Some lo /\ upper_value r = Some hi /\
    is_bad lo = false /\ is_bad hi = false /\ any_is_int r = true /\
    forall n, lo_ok lo n && hi_ok hi n = cmp_ok op n z.
Proof.
  intros k op z R. destruct op; try discriminate R;
    cbv zeta; (eexists; eexists; split; [reflexivity|]; split; [reflexivity|];
    split; [reflexivity|]; split; [reflexivity|]; split; [reflexivity|]);
    intro n; unfold cmp_ok, lo_ok, hi_ok; simpl; rewrite ?Z.gtb_ltb, ?Z.geb_leb;
    repeat match goal with
           | |- context [Z.leb ?a ?b] => destruct (Z.leb_spec a b)
           | |- context [Z.ltb ?a ?b] => destruct (Z.ltb_spec a b)
           end; simpl; try reflexivity; lia.
Qed.

(* Search on a one-condition query *)
Lemma bsearch_single_other : forall st c t,
  is_range_op (c_op c) = false -> bcond_hits st c = Some t ->
  bsearch st [c] = BOk (zsort (filter (bhas st) t)).
Proof.
  intros st c t NR E. unfold bsearch, look_for_ranges. cbn [fold_left]. rewrite NR.
  cbn [map brun_steps filter]. rewrite NR. cbn [negb map]. rewrite E. reflexivity.
Qed.

Lemma bsearch_single_range : forall st c t,
  is_range_op (c_op c) = true -> brange_hits st (single c) = Some t ->
  bsearch st [c] = BOk (zsort (filter (bhas st) t)).
Proof.
  intros st c t R E. unfold bsearch, look_for_ranges. cbn [fold_left]. rewrite R.
  cbn [upd_range map]. fold (single c). rewrite E. cbn [brun_steps filter]. rewrite R.
  reflexivity.
Qed.

Section BArbitrary.
Variable hist : list block.
Let st := brun hist.

Lemma at_has : forall h b, At hist h b -> bhas st h = true.
Proof.
  intros h b [B1 [B2 B3]]. apply (bhas_spec hist st h (brun_ok hist)). exists b. auto.
Qed.

(* what a range scan on an application key compares, for arbitrary values *)
Lemma cands_parse_spec : forall k m x, k <> BlockHeightKey ->
  (In (m, x) (range_cands st k) <->
   exists b, At hist x b /\ exists v, In (k, v) (blk_attrs b) /\ parse_int_go v = Some m).
Proof.
  intros k m x NH. unfold range_cands. rewrite in_flat_map.
  destruct (String.eqb_spec k BlockHeightKey) as [E|_]; [contradiction|]. split.
  - intros [[key x'] [I G]].
    apply (p1_fwd hist st (brun_ok hist) k key x' NH) in I as [v [typ [-> [b [B I]]]]].
    cbn [fst snd range_value] in G. destruct (parse_int_go v) as [m'|] eqn:P; [|destruct G].
    destruct G as [G|[]]. injection G as <- <-. exists b. split; auto. exists v. auto.
  - intros [b [B [v [I P]]]].
    destruct (p1_bwd hist st (brun_ok hist) k v x b NH B I) as [typ J].
    exists (EK k v x typ, x). split; auto. cbn [fst snd range_value]. rewrite P. left; reflexivity.
Qed.

(* "key = n": exactly the heights of the indexed blocks carrying the LITERAL rendering of n *)
Theorem block_search_eq_int_literal : forall k n, k <> BlockHeightKey ->
  exists hs, bsearch st [{| c_key := k; c_op := OpEq; c_arg := OInt n |}] = BOk hs /\
    StronglySorted Z.lt hs /\
    forall h, In h hs <-> exists b, At hist h b /\ In (dec n) (bvals k b).
Proof.
  intros k n NH. set (c := {| c_key := k; c_op := OpEq; c_arg := OInt n |}).
  assert (E : bcond_hits st c = Some (map snd (bscan st (P2 k (dec n))))).
  { unfold bcond_hits, c. cbn [c_op c_arg c_key].
    destruct (String.eqb_spec k BlockHeightKey); [contradiction | reflexivity]. }
  rewrite (bsearch_single_other st c _ eq_refl E). eexists. split; [reflexivity|].
  split; [apply zsort_sorted|]. intro h.
  rewrite zsort_in, filter_In, (p2_hits hist st (brun_ok hist) k (dec n) h NH). split.
  - intros [[b [B I]] _]. exists b. split; auto. apply In_vals. exact I.
  - intros [b [B I]]. split; [|apply (at_has h b B)]. exists b. split; auto. apply In_vals. exact I.
Qed.

(* "key op n", op in < <= > >=: exactly the heights of the indexed blocks with a value under
   the key that strconv.ParseInt reads as an integer m with m op n *)
Theorem block_search_range_parseint : forall k op n, k <> BlockHeightKey -> is_range_op op = true ->
  exists hs, bsearch st [{| c_key := k; c_op := op; c_arg := OInt n |}] = BOk hs /\
    StronglySorted Z.lt hs /\
    forall h, In h hs <->
      exists b, At hist h b /\
        exists v m, In v (bvals k b) /\ parse_int_go v = Some m /\ cmp_ok op m n = true.
Proof.
  intros k op n NH R. set (c := {| c_key := k; c_op := op; c_arg := OInt n |}).
  destruct (bone_bound k op n R) as [lo [hi [L [H [BL [BH [A CMP]]]]]]]. fold c in L, H, A.
  pose proof (brange_generic st (single c) lo hi L H BL BH A) as E.
  assert (KEY : r_key (single c) = k) by (unfold single; rewrite apply_cond_key; reflexivity).
  rewrite KEY in E.
  rewrite (bsearch_single_range st c _ R E). eexists. split; [reflexivity|].
  split; [apply zsort_sorted|]. intro h. rewrite zsort_in, filter_In, in_map_iff. split.
  - intros [[[m x] [X I]] _]. cbn [snd] in X. subst x. apply filter_In in I as [I F]. cbn [fst] in F.
    apply (cands_parse_spec k m h NH) in I as [b [B [v [I P]]]]. exists b. split; auto.
    exists v, m. rewrite <- CMP. repeat split; auto. apply In_vals. exact I.
  - intros [b [B [v [m [I [P X]]]]]]. split; [|apply (at_has h b B)].
    exists (m, h). split; [reflexivity|]. apply filter_In. split.
    + apply (cands_parse_spec k m h NH). exists b. split; auto. exists v. split; auto.
      apply In_vals. exact I.
    + cbn [fst]. rewrite CMP. exact X.
Qed.

(* the matcher on one integer condition *)
Lemma bmatches_single : forall k op n b, op <> OpExists ->
  matches [{| c_key := k; c_op := op; c_arg := OInt n |}] (blk_events b)
  = match_values (bvals k b) op (OInt n).
Proof.
  intros k op n b NE. rewrite matches_nonnil by apply blk_events_nonnil. cbn [match_conds].
  unfold blk_events. rewrite match_cond_group by (cbn [c_op]; exact NE). cbn [c_key c_op c_arg].
  fold (bvals k b). destruct (match_values (bvals k b) op (OInt n)); reflexivity.
Qed.

(* range conditions are EXACT wherever both readers read every indexed value of the key alike *)
Theorem block_search_range_exact_readalike : forall k op n,
  k <> BlockHeightKey -> is_range_op op = true ->
  (forall b v, In b hist -> index_ok b = true -> In v (bvals k b) -> ReadAlike v) ->
  let q := [{| c_key := k; c_op := op; c_arg := OInt n |}] in
  exists hs, bsearch st q = BOk hs /\ StronglySorted Z.lt hs /\
    forall h, In h hs <->
      exists b, In b hist /\ index_ok b = true /\ b_height b = h /\
                matches q (blk_events b) = MTrue.
Proof.
  intros k op n NH R RA q.
  destruct (block_search_range_parseint k op n NH R) as [hs [S [SO E]]].
  exists hs. split; [exact S|]. split; [exact SO|]. intro h. rewrite E.
  assert (NE : op <> OpExists) by (destruct op; discriminate).
  split.
  - intros [b [[B1 [B2 B3]] [v [m [I [P X]]]]]]. exists b. repeat split; auto.
    unfold q. rewrite (bmatches_single k op n b NE). apply mv_int_readable.
    + intros w J Y. destruct (RA b w B1 B2 J) as [m' [V _]]. congruence.
    + exists v, m. split; [exact I|]. split; [|exact X].
      destruct (RA b v B1 B2 I) as [m' [V P']]. congruence.
  - intros [b [B1 [B2 [B3 M]]]]. exists b. split; [unfold At; auto|].
    unfold q in M. rewrite (bmatches_single k op n b NE) in M. apply mv_int_readable in M.
    + destruct M as [v [m [I [V X]]]]. exists v, m. split; [exact I|]. split; [|exact X].
      destruct (RA b v B1 B2 I) as [m' [V' P']]. congruence.
    + intros w J Y. destruct (RA b w B1 B2 J) as [m' [V _]]. congruence.
Qed.

(* FALSE NEGATIVE of "key = n": the only indexed block of height h has, under the key, only a
   non-canonical numeral that the matcher reads as n *)
Theorem block_search_eq_noncanonical_missed : forall k n b v,
  k <> BlockHeightKey ->
  In b hist -> index_ok b = true ->
  (forall b', In b' hist -> index_ok b' = true -> b_height b' = b_height b -> b' = b) ->
  bvals k b = [v] -> value_as_int v = Some n -> canon v = false ->
  let q := [{| c_key := k; c_op := OpEq; c_arg := OInt n |}] in
  matches q (blk_events b) = MTrue /\
  exists hs, bsearch st q = BOk hs /\ ~ In (b_height b) hs.
Proof.
  intros k n b v NH B1 B2 UNI BV V C q. split.
  - unfold q. rewrite bmatches_single by discriminate. rewrite BV.
    cbn [match_values match_value]. rewrite V. cbn [cmp_num]. rewrite Z.eqb_refl. reflexivity.
  - destruct (block_search_eq_int_literal k n NH) as [hs [S [_ E]]].
    exists hs. split; [exact S|]. intro I. apply E in I as [b' [[A1 [A2 A3]] I]].
    rewrite (UNI b' A1 A2 A3), BV in I. destruct I as [I|[]].
    exact (noncanon_not_rendered v n C V I).
Qed.

End BArbitrary.

Lemma block_search_int_arbitrary_values : forall (hist : list block) (k : string) (n : Z),
  k <> BlockHeightKey ->
  (exists hs, bsearch (brun hist) [{| c_key := k; c_op := OpEq; c_arg := OInt n |}] = BOk hs /\
     StronglySorted Z.lt hs /\
     forall h, In h hs <-> exists b, At hist h b /\ In (dec n) (bvals k b)) /\
  (forall op, is_range_op op = true ->
   exists hs, bsearch (brun hist) [{| c_key := k; c_op := op; c_arg := OInt n |}] = BOk hs /\
     StronglySorted Z.lt hs /\
     forall h, In h hs <->
       exists b, At hist h b /\
         exists v m, In v (bvals k b) /\ parse_int_go v = Some m /\ cmp_ok op m n = true).
Proof.
  intros hist k n NH. split.
  - exact (block_search_eq_int_literal hist k n NH).
  - intros op R. exact (block_search_range_parseint hist k op n NH R).
Qed.

(* ------------------------------------------------------------------ closed instances *)

Definition bnm (v : string) : block := blk 1 [ev1 "a" [("x", v)]]%string [].
Definition bnm_q (op : opr) (n : Z) : query := [cnd "a.x" op (OInt n)]%string.

Example block_numeral_007 :
  bsat (bnm_q OpEq 7) (bnm "007") = true /\
  bsearch (brun [bnm "007"]) (bnm_q OpEq 7) = BOk [] /\
  bsat (bnm_q OpGe 7) (bnm "007") = true /\
  bsearch (brun [bnm "007"]) (bnm_q OpGe 7) = BOk [1] /\
  bsat (bnm_q OpLe 5) (bnm "+5") = true /\
  bsearch (brun [bnm "+5"]) (bnm_q OpLe 5) = BOk [1] /\
  bsearch (brun [bnm "+5"]) (bnm_q OpEq 5) = BOk [] /\
  bsat (bnm_q OpLt 0) (bnm "-5") = false /\
  bsearch (brun [bnm "-5"]) (bnm_q OpLt 0) = BOk [1] /\
  matches (bnm_q OpGt 0) (blk_events (bnm "9223372036854775808")) = MErr /\
  bsearch (brun [bnm "9223372036854775808"]) (bnm_q OpGt 0) = BOk [].
Proof. vm_compute. auto 12. Qed.

Example block_search_range_exact_readalike_nonvacuous :
  let hist := [blk 1 [ev1 "a" [("x", "007"); ("x", "+9")]] []; blk 2 [] [ev1 "a" [("x", "8")]]]%string in
  (forall b v, In b hist -> index_ok b = true -> In v (bvals "a.x" b) -> ReadAlike v) /\
  bsearch (brun hist) (bnm_q OpGe 8) = BOk [1; 2] /\
  bsearch (brun hist) (bnm_q OpLt 8) = BOk [1].
Proof.
  cbv zeta. split; [|vm_compute; auto].
  intros b v [<-|[<-|[]]] _ I; vm_compute in I;
    repeat (destruct I as [<-|I]; [eexists; split; reflexivity|]); destruct I.
Qed.

Example block_search_eq_noncanonical_missed_nonvacuous :
  let hist := [bnm "007"] in
  In (bnm "007") hist /\ index_ok (bnm "007") = true /\
  (forall b', In b' hist -> index_ok b' = true -> b_height b' = b_height (bnm "007") -> b' = bnm "007") /\
  bvals "a.x" (bnm "007") = ["007"%string] /\ value_as_int "007" = Some 7 /\ canon "007" = false.
Proof.
  cbv zeta. split; [left; reflexivity|]. split; [reflexivity|].
  split; [intros b' [<-|[]] _ _; reflexivity|]. split; [reflexivity|]. split; reflexivity.
Qed.

Print Assumptions block_search_eq_int_literal.
Print Assumptions block_search_range_parseint.
Print Assumptions block_search_range_exact_readalike.
Print Assumptions block_search_eq_noncanonical_missed.
