(* C19 (search half) — proofs about the model of the kv transaction indexer (SearchModel.v)
   against the query matcher (Query.v). *)
From Coq Require Import String Ascii List ZArith Bool Lia DecimalString DecimalZ DecimalPos Decimal.
From TM Require Import C19.Query C19.SearchModel.
Import ListNotations.
Open Scope Z_scope.

(* ------------------------------------------------------------------ basics *)

Lemma keq_eq : forall a b, keq a b = true <-> a = b.
Proof.
  induction a as [|x a IH]; destruct b as [|y b]; simpl; split; intro E;
    try reflexivity; try discriminate.
  - apply andb_true_iff in E as [E1 E2]. apply String.eqb_eq in E1. apply IH in E2. congruence.
  - inversion E; subst. apply andb_true_iff; split; [apply String.eqb_refl | apply IH; reflexivity].
Qed.

Lemma smem_In : forall x l, smem x l = true <-> In x l.
Proof.
  induction l as [|y l IH]; simpl; [split; [discriminate | tauto]|].
  rewrite orb_true_iff, IH, String.eqb_eq. split; intros [E|E]; auto.
Qed.

Lemma sdedup_In : forall x l, In x (sdedup l) <-> In x l.
Proof.
  induction l as [|y l IH]; simpl; [tauto|].
  rewrite filter_In, IH, negb_true_iff.
  destruct (String.eqb_spec x y) as [->|N]; [tauto|].
  split; [intros [E|[E _]]; auto | intros [E|E]; [left; exact E | right; split; auto]].
Qed.

Lemma dec_inj : forall a b, dec a = dec b -> a = b.
Proof.
  intros a b E. unfold dec in E.
  assert (NN : forall z, Z.to_int z <> Pos Nil /\ Z.to_int z <> Neg Nil).
  { intro z; destruct z as [|p|p]; simpl; split; try discriminate;
      intro X; injection X as X; exact (Unsigned.to_uint_nonnil p X). }
  apply (f_equal NilZero.int_of_string) in E.
  rewrite !NilZero.isi in E by apply NN.
  injection E as E. apply to_int_inj; exact E.
Qed.

Lemma tail2_inj : forall (A : Type) (l1 l2 : list A) a b c d,
  l1 ++ [a; b] = l2 ++ [c; d] -> l1 = l2 /\ a = c /\ b = d.
Proof.
  intros A l1 l2 a b c d E.
  change (l1 ++ [a; b]) with (l1 ++ [a] ++ [b]) in E.
  change (l2 ++ [c; d]) with (l2 ++ [c] ++ [d]) in E.
  rewrite !app_assoc in E. apply app_inj_tail in E as [E ->].
  apply app_inj_tail in E as [-> ->]. auto.
Qed.

(* ------------------------------------------------------------------ what a history leaves in the store *)

(* the keys a transaction is indexed under: one per indexed attribute occurrence
   (type.key / value / height / index) and the height key tx.height / height / height / index *)
Definition keys_of (t : txres) : list key :=
  map (fun tv => key_for_event (fst tv) (snd tv) t) (ext_attrs t).

Definition hpos (t : txres) : Z * Z := (t_height t, t_index t).

(* premises on a history: pairwise distinct transactions (hash tokens) at pairwise distinct
   (height, index) positions *)
Definition Distinct (txs : list txres) : Prop :=
  NoDup (map t_hash txs) /\ NoDup (map hpos txs).

Record StoreOK (txs : list txres) (st : store) : Prop := {
  ok_idx : forall k id, In (k, id) (s_idx st) <->
             exists t, In t txs /\ id = t_hash t /\ In k (keys_of t);
  ok_idx_nodup : NoDup (map fst (s_idx st));
  ok_prim : forall id t, get st id = Some t <-> In t txs /\ t_hash t = id;
  ok_prim_nodup : NoDup (map fst (s_prim st)) }.

Lemma keys_of_pos : forall t r k, In k (keys_of t) -> In k (keys_of r) -> hpos t = hpos r.
Proof.
  unfold keys_of, key_for_event, hpos. intros t r k H1 H2.
  apply in_map_iff in H1 as [[a b] [<- _]]. apply in_map_iff in H2 as [[c d] [E _]].
  simpl in E. rewrite !app_assoc in E. apply tail2_inj in E as [_ [E1 E2]].
  apply dec_inj in E1. apply dec_inj in E2. congruence.
Qed.

Lemma set_idx_fold : forall (f : string * string -> key) h l idx k id,
  In (k, id) (fold_left (fun idx tv => set_idx (f tv) h idx) l idx) <->
  (In k (map f l) /\ id = h) \/ (~ In k (map f l) /\ In (k, id) idx).
Proof.
  intros f h l. induction l as [|tv l IH]; intros idx k id; simpl; [tauto|].
  rewrite IH. unfold set_idx. simpl. rewrite filter_In. simpl. rewrite negb_true_iff.
  destruct (keq k (f tv)) eqn:K.
  - apply keq_eq in K. subst k. split.
    + intros [[A B]|[A [B|[_ B]]]]; auto. injection B as B; left; auto. discriminate.
    + intros [[A B]|[A B]]; [|tauto].
      destruct (in_dec (list_eq_dec string_dec) (f tv) (map f l)) as [I|I]; [left; auto|].
      right; split; auto. left; congruence.
  - assert (N : f tv <> k) by (intro X; subst k; rewrite (proj2 (keq_eq _ _) eq_refl) in K; discriminate).
    split.
    + intros [[A B]|[A [B|[B _]]]]; [left; auto | injection B as B; congruence | right; tauto].
    + intros [[[A|A] B]|[A B]]; [congruence | left; auto | right; split; [tauto| right; tauto]].
Qed.

Lemma set_idx_fold_nodup : forall (f : string * string -> key) h l idx,
  NoDup (map fst idx) -> NoDup (map fst (fold_left (fun idx tv => set_idx (f tv) h idx) l idx)).
Proof.
  intros f h l. induction l as [|tv l IH]; intros idx N; simpl; [exact N|].
  apply IH. unfold set_idx. simpl. constructor.
  - intro X. apply in_map_iff in X as [[k id] [E X]]. apply filter_In in X as [_ X].
    simpl in E, X. subst k. rewrite (proj2 (keq_eq _ _) eq_refl) in X. discriminate.
  - clear IH. induction idx as [|e idx IH]; simpl; [constructor|].
    inversion N; subst. destruct (negb (keq (fst e) (f tv))); simpl; auto.
    constructor; auto. intro X. apply H1. apply in_map_iff in X as [y [E X]].
    apply filter_In in X as [X _]. apply in_map_iff. exists y; auto.
Qed.

Lemma get_prim_filter : forall id h pr, id <> h ->
  get_prim id (filter (fun e => negb (String.eqb (fst e) h)) pr) = get_prim id pr.
Proof.
  intros id h pr N. induction pr as [|[h' r] pr IH]; simpl; [reflexivity|].
  destruct (String.eqb_spec h' h) as [->|N']; simpl.
  - destruct (String.eqb_spec id h); [contradiction | exact IH].
  - destruct (String.eqb id h'); [reflexivity | exact IH].
Qed.

Lemma get_prim_In : forall id pr t, get_prim id pr = Some t -> In id (map fst pr).
Proof.
  induction pr as [|[h' r] pr IH]; simpl; intros t E; [discriminate|].
  destruct (String.eqb_spec id h'); [left; auto | right; eauto].
Qed.

Lemma add_one_ok : forall txs st r,
  StoreOK txs st -> ~ In (t_hash r) (map t_hash txs) -> ~ In (hpos r) (map hpos txs) ->
  StoreOK (txs ++ [r]) (add_one st r).
Proof.
  intros txs st r [I1 I2 I3 I4] NH NP. constructor.
  - intros k id. unfold add_one; simpl. rewrite set_idx_fold. fold (keys_of r). split.
    + intros [[A B]|[A B]].
      * exists r. rewrite in_app_iff; simpl; auto.
      * apply I1 in B as [t [T1 [T2 T3]]]. exists t. rewrite in_app_iff; auto.
    + intros [t [T1 [T2 T3]]]. apply in_app_iff in T1 as [T1|[<-|[]]]; [|left; auto].
      right. split; [|apply I1; eauto].
      intro X. apply NP. rewrite <- (keys_of_pos _ _ _ T3 X). apply in_map; exact T1.
  - unfold add_one; simpl. apply set_idx_fold_nodup; exact I2.
  - intros id t. unfold get, add_one; simpl. unfold get in I3.
    destruct (String.eqb_spec id (t_hash r)) as [->|N].
    + split.
      * intro E; injection E as <-. rewrite in_app_iff; simpl; auto.
      * intros [T1 T2]. apply in_app_iff in T1 as [T1|[<-|[]]]; [|reflexivity].
        exfalso. apply NH. rewrite <- T2. apply in_map; exact T1.
    + rewrite get_prim_filter by exact N. rewrite I3, in_app_iff. simpl.
      split; [tauto|]. intros [[T|[<-|[]]] E]; auto. congruence.
  - unfold add_one; simpl. constructor.
    + intro X. apply in_map_iff in X as [[h t] [E X]]. apply filter_In in X as [_ X].
      simpl in E, X. subst h. rewrite String.eqb_refl in X. discriminate.
    + clear -I4. induction (s_prim st) as [|e pr IH]; simpl; [constructor|].
      inversion I4; subst.
      match goal with |- context [if ?b then _ else _] => destruct b end; simpl; auto.
      constructor; auto. intro X. apply H1. apply in_map_iff in X as [y [E X]].
      apply filter_In in X as [X _]. apply in_map_iff. exists y; auto.
Qed.

Lemma NoDup_app_l : forall (A : Type) (a b : list A), NoDup (a ++ b) -> NoDup a.
Proof.
  induction a as [|x a IH]; intros b N; simpl in *; [constructor|].
  inversion N; subst. constructor; [|eapply IH; eauto].
  intro X. apply H1. apply in_app_iff; auto.
Qed.

Lemma distinct_app : forall txs r, Distinct (txs ++ [r]) ->
  Distinct txs /\ ~ In (t_hash r) (map t_hash txs) /\ ~ In (hpos r) (map hpos txs).
Proof.
  unfold Distinct. intros txs r [A B]. rewrite map_app in A, B. simpl in A, B.
  apply NoDup_remove in A as [A1 A2]. apply NoDup_remove in B as [B1 B2].
  rewrite app_nil_r in *. auto.
Qed.

Lemma add_batch_ok : forall b txs st,
  StoreOK txs st -> Distinct (txs ++ b) -> StoreOK (txs ++ b) (add_batch st b).
Proof.
  induction b as [|r b IH]; intros txs st OK D; simpl.
  - rewrite app_nil_r. exact OK.
  - change (r :: b) with ([r] ++ b) in *. rewrite app_assoc in *.
    apply IH; [|exact D].
    assert (D' : Distinct (txs ++ [r])).
    { destruct D as [D1 D2]. rewrite map_app in D1, D2.
      split; [apply NoDup_app_l in D1 | apply NoDup_app_l in D2]; assumption. }
    apply distinct_app in D' as [_ [NH NP]]. apply add_one_ok; assumption.
Qed.

Lemma index_one_ok : forall r txs st,
  StoreOK txs st -> Distinct (txs ++ [r]) ->
  index_one st r = add_one st r /\ StoreOK (txs ++ [r]) (add_one st r).
Proof.
  intros r txs st OK D. apply distinct_app in D as [_ [NH NP]]. split.
  - unfold index_one. destruct (negb (t_code r =? 0)); [|reflexivity].
    destruct (get st (t_hash r)) as [old|] eqn:G; [|reflexivity].
    exfalso. apply (ok_prim _ _ OK) in G as [G1 G2]. apply NH. rewrite <- G2. apply in_map; exact G1.
  - apply add_one_ok; assumption.
Qed.

Lemma history_ok_gen : forall h txs st,
  StoreOK txs st -> Distinct (txs ++ history_txs h) ->
  StoreOK (txs ++ history_txs h) (fold_left apply_op h st).
Proof.
  induction h as [|o h IH]; intros txs st OK D; simpl.
  - rewrite app_nil_r. exact OK.
  - unfold history_txs in *. simpl in *. rewrite app_assoc in *.
    apply IH; [|exact D].
    assert (D' : Distinct (txs ++ op_txs o)).
    { destruct D as [D1 D2]. rewrite map_app in D1, D2.
      split; [apply NoDup_app_l in D1 | apply NoDup_app_l in D2]; assumption. }
    destruct o as [b|r]; simpl in *.
    + apply add_batch_ok; assumption.
    + destruct (index_one_ok r txs st OK D') as [E S]. rewrite E. exact S.
Qed.

Lemma empty_ok : StoreOK [] empty_store.
Proof.
  constructor; simpl.
  - intros k id; split; [tauto | intros [t [[] _]]].
  - constructor.
  - intros id t; unfold get; simpl; split; [discriminate | tauto].
  - constructor.
Qed.

Lemma history_ok : forall h, Distinct (history_txs h) -> StoreOK (history_txs h) (run_history h).
Proof. intros h D. apply (history_ok_gen h [] empty_store empty_ok D). Qed.

(* C19_indexed_once: after any history of AddBatch / Index calls on pairwise distinct
   transactions at pairwise distinct positions, the event index holds every key once, and a key
   belongs to a transaction exactly when it is one of that transaction's keys (its height key,
   or type.key/value/height/index of an attribute with Index=true); the primary table holds
   every hash once, and Get(hash) returns exactly the indexed result. *)
Theorem C19_indexed_once : forall h : list iop,
  Distinct (history_txs h) ->
  let st := run_history h in
  NoDup (map fst (s_idx st)) /\ NoDup (map fst (s_prim st)) /\
  (forall k id, In (k, id) (s_idx st) <->
     exists t, In t (history_txs h) /\ id = t_hash t /\ In k (keys_of t)) /\
  (forall id t, get st id = Some t <-> In t (history_txs h) /\ t_hash t = id).
Proof.
  intros h D st. destruct (history_ok h D) as [I1 I2 I3 I4]. auto.
Qed.

(* ------------------------------------------------------------------ value domain *)

Fixpoint no_slash (s : string) : bool :=
  match s with
  | EmptyString => true
  | String c r => negb (Ascii.eqb c "/"%char) && no_slash r
  end.

Lemma split_no_slash : forall s, no_slash s = true -> split_slash s = [s].
Proof.
  induction s as [|a s IH]; simpl; auto.
  destruct (Ascii.eqb a "/"%char); simpl; [discriminate|]. intro H. rewrite IH; auto.
Qed.

Lemma no_slash_uint : forall d, no_slash (NilEmpty.string_of_uint d) = true.
Proof. induction d; simpl; auto. Qed.

Lemma no_slash_dec : forall z, no_slash (dec z) = true.
Proof.
  intro z. unfold dec.
  assert (U : forall d, no_slash (NilZero.string_of_uint d) = true).
  { intro d. unfold NilZero.string_of_uint. destruct d; try reflexivity; apply no_slash_uint. }
  destruct z; simpl; try apply U. reflexivity.
Qed.

(* the application's indexed attributes: no '/' in composite tags and values, the reserved keys
   tx.height and tx.hash are not used as composite tags *)
Definition TxDomain (t : txres) : Prop :=
  forall tag v, In (tag, v) (indexed_attrs t) ->
    no_slash tag = true /\ no_slash v = true /\ tag <> TxHeightKey /\ tag <> TxHashKey.

Definition tvals (k : string) (t : txres) : list string := vals_of k (ext_attrs t).

Lemma In_vals : forall k v l, In v (vals_of k l) <-> In (k, v) l.
Proof.
  intros k v l. unfold vals_of. rewrite in_map_iff. split.
  - intros [[k' v'] [E X]]. apply filter_In in X as [X Y]. simpl in *.
    apply String.eqb_eq in Y. congruence.
  - intro X. exists (k, v). split; auto. apply filter_In. split; auto. simpl. apply String.eqb_refl.
Qed.

Lemma ext_in : forall t tag v, In (tag, v) (ext_attrs t) <->
  In (tag, v) (indexed_attrs t) \/ (tag = TxHeightKey /\ v = dec (t_height t)).
Proof.
  intros. unfold ext_attrs. rewrite in_app_iff. simpl. split.
  - intros [A|[A|[]]]; auto. injection A as <- <-. auto.
  - intros [A|[-> ->]]; auto.
Qed.

Lemma ext_no_slash : forall t tag v, TxDomain t -> In (tag, v) (ext_attrs t) ->
  no_slash tag = true /\ no_slash v = true /\ tag <> TxHashKey.
Proof.
  intros t tag v D I. apply ext_in in I as [I|[-> ->]].
  - destruct (D _ _ I) as [A [B [_ C]]]. auto.
  - split; [reflexivity|]. split; [apply no_slash_dec | discriminate].
Qed.

Lemma keys_of_dom : forall t k, TxDomain t ->
  (In k (keys_of t) <->
   exists tag v, In (tag, v) (ext_attrs t) /\ k = [tag; v; dec (t_height t); dec (t_index t)]).
Proof.
  intros t k D. unfold keys_of. rewrite in_map_iff. split.
  - intros [[tag v] [E I]]. exists tag, v. split; auto.
    destruct (ext_no_slash _ _ _ D I) as [A [B _]]. subst k. unfold key_for_event. simpl.
    rewrite (split_no_slash _ A), (split_no_slash _ B). reflexivity.
  - intros [tag [v [I E]]]. exists (tag, v). split; auto.
    destruct (ext_no_slash _ _ _ D I) as [A [B _]]. subst k. unfold key_for_event. simpl.
    rewrite (split_no_slash _ A), (split_no_slash _ B). reflexivity.
Qed.

(* ------------------------------------------------------------------ the matcher on tx_events *)

Lemma smem_sdedup : forall x l, smem x (sdedup l) = smem x l.
Proof.
  intros. apply eq_iff_eq_true. rewrite !smem_In. apply sdedup_In.
Qed.

Lemma smem_app : forall x a b, smem x (a ++ b) = smem x a || smem x b.
Proof. induction a; simpl; intros; auto. rewrite IHa, orb_assoc. reflexivity. Qed.

Lemma ev_lookup_group : forall k l,
  ev_lookup k (group l) = if smem k (map fst l) then Some (vals_of k l) else None.
Proof.
  intros k l. unfold group. rewrite <- (smem_sdedup k (map fst l)).
  induction (sdedup (map fst l)) as [|a ks IH]; simpl; [reflexivity|].
  destruct (String.eqb_spec k a) as [->|N]; simpl; [reflexivity | exact IH].
Qed.

Lemma vals_nil : forall k l, smem k (map fst l) = false -> vals_of k l = [].
Proof.
  induction l as [|[k' v] l IH]; simpl; intro H; [reflexivity|].
  apply orb_false_iff in H as [H1 H2]. unfold vals_of. simpl.
  rewrite String.eqb_sym, H1. apply IH; exact H2.
Qed.

Lemma vals_app_other : forall k k' v l, k' <> k -> vals_of k (l ++ [(k', v)]) = vals_of k l.
Proof.
  intros k k' v l N. unfold vals_of. rewrite filter_app, map_app. cbn [filter fst].
  destruct (String.eqb_spec k' k); [contradiction|]. cbn [map]. apply app_nil_r.
Qed.

Lemma ev_lookup_tx : forall k t, k <> TxHashKey ->
  ev_lookup k (tx_events t) =
  if smem k (map fst (ext_attrs t)) then Some (tvals k t) else None.
Proof.
  intros k t N. unfold tx_events, tvals. rewrite ev_lookup_group, map_app, smem_app. simpl.
  destruct (String.eqb_spec k TxHashKey) as [E|_]; [contradiction|]. rewrite !orb_false_r.
  rewrite vals_app_other by congruence. reflexivity.
Qed.

Lemma match_cond_vals : forall c t, c_op c <> OpExists -> c_key c <> TxHashKey ->
  match_cond c (tx_events t) = match_values (tvals (c_key c) t) (c_op c) (c_arg c).
Proof.
  intros c t NE NK. unfold match_cond. rewrite (ev_lookup_tx _ t NK).
  destruct (smem (c_key c) (map fst (ext_attrs t))) eqn:S.
  - destruct (c_op c); try reflexivity. contradiction.
  - unfold tvals. rewrite (vals_nil _ _ S). destruct (c_op c); try reflexivity. contradiction.
Qed.

Lemma smem_fst : forall k (l : list (string * string)),
  smem k (map fst l) = true <-> exists v, In (k, v) l.
Proof.
  intros. rewrite smem_In, in_map_iff. split.
  - intros [[k' v] [E I]]. simpl in E. subst. eauto.
  - intros [v I]. exists (k, v). auto.
Qed.

Lemma match_cond_exists : forall c t, c_op c = OpExists -> c_key c <> TxHashKey ->
  has_char "."%char (c_key c) = true ->
  (match_cond c (tx_events t) = MTrue <-> exists v, In (c_key c, v) (ext_attrs t)).
Proof.
  intros c t E NK DOT. unfold match_cond. rewrite E, DOT, (ev_lookup_tx _ t NK), <- smem_fst.
  destruct (smem (c_key c) (map fst (ext_attrs t))); simpl; split; auto; discriminate.
Qed.

Lemma mv_eq_str : forall vs s, match_values vs OpEq (OStr s) = MTrue <-> In s vs.
Proof.
  induction vs as [|v vs IH]; intro s; simpl; [split; [discriminate | tauto]|].
  destruct (String.eqb_spec v s) as [->|N]; simpl; [tauto|].
  rewrite IH. split; [auto | intros [X|X]; [contradiction | exact X]].
Qed.

Lemma mv_contains : forall vs s,
  match_values vs OpContains (OStr s) = MTrue <-> exists v, In v vs /\ str_contains s v = true.
Proof.
  induction vs as [|v vs IH]; intro s; simpl; [split; [discriminate | intros [v [[] _]]]|].
  destruct (str_contains s v) eqn:C; simpl.
  - split; auto. intros _. exists v; auto.
  - rewrite IH. split; intros [w [A B]]; [exists w; auto|].
    destruct A as [->|A]; [congruence | exists w; auto].
Qed.

(* a value on which the matcher's and the indexer's integer readings agree: it is the decimal
   rendering of the integer both return *)
Definition NumOK (v : string) : Prop :=
  exists z, v = dec z /\ value_as_int v = Some z /\ parse_int_go v = Some z.

Definition cmp_ok (op : opr) (z x : Z) : bool :=
  match op with
  | OpLe => z <=? x | OpGe => z >=? x | OpLt => z <? x | OpGt => z >? x | OpEq => z =? x
  | _ => false
  end.

Lemma mv_int : forall vs op x, (forall v, In v vs -> NumOK v) ->
  (match_values vs op (OInt x) = MTrue <-> exists z, In (dec z) vs /\ cmp_ok op z x = true).
Proof.
  induction vs as [|v vs IH]; intros op x NK; simpl; [split; [discriminate | intros [z [[] _]]]|].
  destruct (NK v (or_introl eq_refl)) as [z [E1 [E2 _]]]. rewrite E2.
  assert (C : cmp_num op z x = if cmp_ok op z x then MTrue else MFalse) by (destruct op; reflexivity).
  rewrite C. destruct (cmp_ok op z x) eqn:K.
  - split; auto. intros _. exists z. subst v. auto.
  - rewrite IH by (intros; apply NK; right; assumption).
    split; intros [z' [A B]]; [exists z'; auto|].
    destruct A as [A|A]; [|exists z'; auto].
    rewrite E1 in A. apply dec_inj in A. subst z'. congruence.
Qed.

Lemma tx_events_nonnil : forall t, tx_events t <> [].
Proof.
  intro t. unfold tx_events, group, ext_attrs. rewrite !map_app. simpl.
  destruct (map fst (indexed_attrs t)); simpl; discriminate.
Qed.

Lemma match_conds_all : forall q ev,
  match_conds q ev = MTrue <-> forall c, In c q -> match_cond c ev = MTrue.
Proof.
  induction q as [|c q IH]; intro ev; simpl; [split; [intros _ c [] | reflexivity]|].
  destruct (match_cond c ev) eqn:M.
  - rewrite IH. split; [intros H c' [<-|I]; auto | intros H c' I; apply H; auto].
  - split; [discriminate | intro H; rewrite <- M; symmetry; rewrite <- (H c (or_introl eq_refl)); congruence].
  - split; [discriminate | intro H; rewrite <- M; symmetry; rewrite <- (H c (or_introl eq_refl)); congruence].
Qed.

(* ------------------------------------------------------------------ the loops of Search *)

Lemma step_false : forall id f tmp,
  In id (step_result false f tmp) <-> In id f /\ In id tmp.
Proof.
  intros id f tmp.
  destruct f as [|a f]; [unfold step_result; simpl; tauto|].
  destruct tmp as [|b tmp]; [unfold step_result; simpl; tauto|].
  change (step_result false (a :: f) (b :: tmp))
    with (filter (fun h => smem h (b :: tmp)) (a :: f)).
  rewrite filter_In, smem_In. tauto.
Qed.

Lemma step_true : forall f tmp, step_result true f tmp = tmp.
Proof. intros. unfold step_result. simpl. rewrite orb_true_r. reflexivity. Qed.

Lemma run_true : forall tmps f id,
  In id (snd (run_steps tmps true f)) <-> In id f /\ forall tmp, In tmp tmps -> In id tmp.
Proof.
  induction tmps as [|tmp rest IH]; intros f id; simpl; [split; [intro; split; [auto | intros ? []] | tauto]|].
  rewrite IH, step_false. split.
  - intros [[A B] C]. split; auto. intros t [<-|I]; auto.
  - intros [A B]. split; [split|]; auto.
Qed.

Lemma run_false : forall tmps id, tmps <> [] ->
  (In id (snd (run_steps tmps false [])) <-> forall tmp, In tmp tmps -> In id tmp).
Proof.
  intros [|tmp rest] id NE; [contradiction|]. simpl. rewrite step_true.
  destruct tmp as [|a tmp]; simpl.
  - split; [tauto | intro H; apply (H [] (or_introl eq_refl))].
  - rewrite run_true. split.
    + intros [A B] t [<-|I]; auto.
    + intro H. split; auto.
Qed.

(* ------------------------------------------------------------------ one condition = one scan *)

Definition NumKey (txs : list txres) (k : string) : Prop :=
  forall t v, In t txs -> In v (tvals k t) -> NumOK v.

(* the query sub-language of the exactness theorem (per condition) *)
Definition wf_cond (txs : list txres) (c : cond) : Prop :=
  no_slash (c_key c) = true /\ c_key c <> TxHashKey /\
  match c_op c, c_arg c with
  | OpEq, OStr s => no_slash s = true /\ c_key c <> TxHeightKey
  | OpEq, OInt z => NumKey txs (c_key c)
  | OpContains, OStr s => True
  | OpExists, ONone => has_char "."%char (c_key c) = true
  | _, _ => False
  end.

Definition height_ok (H : Z) (c : cond) (t : txres) : Prop :=
  c_op c = OpEq -> 0 < H -> t_height t = H.

Section Hits.
Variables (txs : list txres) (st : store).
Hypothesis OK : StoreOK txs st.
Hypothesis DOM : forall t, In t txs -> TxDomain t.

Lemma idx_entry : forall k id, In (k, id) (s_idx st) <->
  exists t tag v, In t txs /\ id = t_hash t /\ In (tag, v) (ext_attrs t) /\
    k = [tag; v; dec (t_height t); dec (t_index t)].
Proof.
  intros. rewrite (ok_idx _ _ OK). split.
  - intros [t [A [B C]]]. apply (keys_of_dom _ _ (DOM _ A)) in C as [tag [v [C D]]].
    exists t, tag, v; auto.
  - intros [t [tag [v [A [B [C D]]]]]]. exists t. split; auto. split; auto.
    apply (keys_of_dom _ _ (DOM _ A)). eauto.
Qed.

Lemma scan_entry : forall p k id, In (k, id) (scan (s_idx st) p) <->
  exists t tag v, In t txs /\ id = t_hash t /\ In (tag, v) (ext_attrs t) /\
    k = [tag; v; dec (t_height t); dec (t_index t)] /\ proper_prefix p k = true.
Proof.
  intros. unfold scan. rewrite filter_In, idx_entry. simpl. split.
  - intros [[t [tag [v [A [B [C D]]]]]] P]. exists t, tag, v. auto.
  - intros [t [tag [v [A [B [C [D P]]]]]]]. split; auto. exists t, tag, v. auto.
Qed.

Lemma scan_hits : forall p id, In id (map snd (scan (s_idx st) p)) <->
  exists t tag v, In t txs /\ id = t_hash t /\ In (tag, v) (ext_attrs t) /\
    proper_prefix p [tag; v; dec (t_height t); dec (t_index t)] = true.
Proof.
  intros. rewrite in_map_iff. split.
  - intros [[k id'] [E I]]. simpl in E. subst id'.
    apply scan_entry in I as [t [tag [v [A [B [C [D P]]]]]]]. subst k. exists t, tag, v. auto.
  - intros [t [tag [v [A [B [C P]]]]]].
    exists ([tag; v; dec (t_height t); dec (t_index t)], id). split; auto.
    apply scan_entry. exists t, tag, v. auto.
Qed.

Lemma pp1 : forall k tag v a b, proper_prefix [k] [tag; v; a; b] = true <-> tag = k.
Proof.
  intros. simpl. rewrite andb_true_r, String.eqb_eq. split; congruence.
Qed.
Lemma pp2 : forall k s tag v a b, proper_prefix [k; s] [tag; v; a; b] = true <-> tag = k /\ v = s.
Proof.
  intros. simpl. rewrite andb_true_r, andb_true_iff, !String.eqb_eq. split; intros [? ?]; split; congruence.
Qed.
Lemma pp3 : forall k s h tag v a b,
  proper_prefix [k; s; h] [tag; v; a; b] = true <-> tag = k /\ v = s /\ a = h.
Proof.
  intros. simpl. rewrite andb_true_r, !andb_true_iff, !String.eqb_eq.
  split; [intros [? [? ?]] | intros [? [? ?]]]; repeat split; congruence.
Qed.

(* "key = <rendered operand>" scan, with the tx.height narrowing *)
Lemma eq_hits : forall k s H id, no_slash k = true ->
  (In id (map snd (scan (s_idx st)
                    (split_slash k ++ [s] ++ (if 0 <? H then [dec H] else [])))) <->
   exists t, In t txs /\ id = t_hash t /\ In (k, s) (ext_attrs t) /\ (0 < H -> t_height t = H)).
Proof.
  intros k s H id NS. rewrite (split_no_slash _ NS), scan_hits.
  destruct (Z.ltb_spec 0 H) as [L|L]; simpl app.
  - split.
    + intros [t [tag [v [A [B [C P]]]]]]. apply pp3 in P as [-> [-> P]]. apply dec_inj in P.
      exists t. auto.
    + intros [t [A [B [C D]]]]. exists t, k, s. repeat split; auto. apply pp3.
      rewrite (D L). auto.
  - split.
    + intros [t [tag [v [A [B [C P]]]]]]. apply pp2 in P as [-> ->]. exists t.
      repeat split; auto. lia.
    + intros [t [A [B [C D]]]]. exists t, k, s. repeat split; auto. apply pp2. auto.
Qed.

Lemma cond_hits_spec : forall H c id, wf_cond txs c ->
  (In id (cond_hits st H c) <->
   exists t, In t txs /\ id = t_hash t /\ match_cond c (tx_events t) = MTrue /\ height_ok H c t).
Proof.
  intros H [k op arg] id [NS [NK W]]. simpl in NS, NK, W. unfold cond_hits, height_ok.
  cbn [c_op c_arg c_key].
  destruct op; try contradiction; destruct arg; try contradiction; cbn [render_operand].
  - (* = 'string' *)
    destruct W as [NSs _]. rewrite (split_no_slash _ NSs), eq_hits by exact NS.
    split; intros [t [A [B [C D]]]]; exists t; repeat split; auto.
    + rewrite match_cond_vals by (simpl; congruence). simpl. apply mv_eq_str, In_vals. exact C.
    + rewrite match_cond_vals in C by (simpl; congruence). simpl in C.
      apply mv_eq_str, In_vals in C. exact C.
  - (* = integer *)
    rewrite eq_hits by exact NS.
    split; intros [t [A [B [C D]]]]; exists t; repeat split; auto.
    + rewrite match_cond_vals by (simpl; congruence). simpl.
      apply mv_int; [intros v I; apply (W t v A I)|]. exists z. split; [apply In_vals; exact C|].
      simpl. apply Z.eqb_refl.
    + rewrite match_cond_vals in C by (simpl; congruence). simpl in C.
      apply mv_int in C; [|intros v I; apply (W t v A I)]. destruct C as [z' [C1 C2]].
      simpl in C2. apply Z.eqb_eq in C2. subst z'. apply In_vals in C1. exact C1.
  - (* CONTAINS *)
    rewrite (split_no_slash _ NS), in_flat_map. split.
    + intros [[key id'] [I G]]. apply scan_entry in I as [t [tag [v [A [B [C [D P]]]]]]].
      subst key. apply pp1 in P. subst tag.
      change (In id (if str_contains s v then [id'] else [])) in G.
      destruct (str_contains s v) eqn:SC; [|destruct G]. destruct G as [<-|[]].
      exists t. repeat split; auto; [|discriminate].
      rewrite match_cond_vals by (simpl; congruence). simpl. apply mv_contains.
      exists v. split; auto. apply In_vals. exact C.
    + intros [t [A [B [C _]]]]. rewrite match_cond_vals in C by (simpl; congruence). simpl in C.
      apply mv_contains in C as [v [C1 C2]]. apply In_vals in C1.
      exists ([k; v; dec (t_height t); dec (t_index t)], id). split.
      * apply scan_entry. exists t, k, v. repeat split; auto. apply pp1. reflexivity.
      * change (In id (if str_contains s v then [id] else [])). rewrite C2. left; reflexivity.
  - (* EXISTS *)
    rewrite (split_no_slash _ NS), scan_hits. split.
    + intros [t [tag [v [A [B [C P]]]]]]. apply pp1 in P. subst tag. exists t.
      repeat split; auto; [|discriminate]. apply match_cond_exists; simpl; eauto.
    + intros [t [A [B [C _]]]]. apply match_cond_exists in C; simpl; auto.
      destruct C as [v C]. simpl in C. exists t, k, v.
      split; [exact A|]. split; [exact B|]. split; [exact C|].
      simpl. rewrite String.eqb_refl. reflexivity.
Qed.

End Hits.

(* ------------------------------------------------------------------ exactness of Search *)

Lemma no_hash : forall q, (forall c, In c q -> c_key c <> TxHashKey) -> look_for_hash q = HNone.
Proof.
  induction q as [|a q IH]; simpl; intro H; auto.
  destruct (String.eqb_spec (c_key a) TxHashKey) as [E|_]; [exfalso; apply (H a); auto|].
  apply IH. intros; apply H; auto.
Qed.

Lemma no_ranges : forall q rs, (forall c, In c q -> is_range_op (c_op c) = false) ->
  fold_left (fun rs c => if is_range_op (c_op c) then upd_range c rs else rs) q rs = rs.
Proof.
  induction q as [|a q IH]; simpl; intros rs H; auto. rewrite (H a) by auto. apply IH. intros; apply H; auto.
Qed.

Lemma filter_all : forall q, (forall c, In c q -> is_range_op (c_op c) = false) ->
  filter (fun c => negb (is_range_op (c_op c))) q = q.
Proof.
  induction q as [|a q IH]; simpl; intro H; auto. rewrite (H a) by auto. simpl. f_equal. apply IH.
  intros; apply H; auto.
Qed.

Lemma wf_not_range : forall txs c, wf_cond txs c -> is_range_op (c_op c) = false.
Proof.
  intros txs [k op arg] [_ [_ W]]. simpl in *. destruct op; try reflexivity; destruct arg; contradiction.
Qed.

Lemma height_found : forall txs q, (forall c, In c q -> wf_cond txs c) ->
  exists H, look_for_height q = Some H /\
    (0 < H -> exists c, In c q /\ c_key c = TxHeightKey /\ c_op c = OpEq /\ c_arg c = OInt H).
Proof.
  intros txs. induction q as [|a q IH]; intro W.
  - exists 0. split; [reflexivity | lia].
  - destruct IH as [H [E HC]]; [intros; apply W; right; assumption|].
    assert (REST : exists H, look_for_height q = Some H /\
       (0 < H -> exists c, In c (a :: q) /\ c_key c = TxHeightKey /\ c_op c = OpEq /\ c_arg c = OInt H)).
    { exists H. split; auto. intro L. destruct (HC L) as [c [I X]]. exists c. split; [right|]; auto. }
    destruct (W a (or_introl eq_refl)) as [_ [_ WA]].
    simpl. destruct (String.eqb_spec (c_key a) TxHeightKey) as [K|_]; simpl; [|exact REST].
    destruct (c_op a) eqn:O; try exact REST.
    destruct (c_arg a) eqn:AR; try contradiction.
    + destruct WA as [_ WA]. contradiction.
    + exists z. split; auto. intros _. exists a. auto.
Qed.

Lemma matches_nonnil : forall q ev, ev <> [] -> matches q ev = match_conds q ev.
Proof. intros q [|e ev] N; [contradiction | reflexivity]. Qed.

(* C19_search_exact_partial.  FULL STATEMENT AIMED AT (search_exact): as below, with wf_cond also
   admitting range conditions (< <= > >=) with integer operands on NumKey keys, at most one lower
   and one upper bound per key (both only on keys that are single-valued in every transaction).
   PROVED HERE: every history of AddBatch/Index calls, every query that is a non-empty
   conjunction of   key = 'string'   key = integer   key CONTAINS 'string'   key EXISTS (dotted
   key), including tx.height = H (whose narrowing of every "=" scan is covered).
   MISSING: the range conditions (LookForRanges / matchRange are modelled and tested by the
   harness, but not covered by this proof), and the lemma that [dec z] is NumOK for every
   0 <= z <= MaxInt64 (NumOK is a premise on the values integer conditions are compared with,
   heights included). *)
Theorem C19_search_exact_partial : forall (h : list iop) (q : query),
  Distinct (history_txs h) ->
  (forall t, In t (history_txs h) -> TxDomain t) ->
  q <> [] ->
  (forall c, In c q -> wf_cond (history_txs h) c) ->
  exists ids, search (run_history h) q = SOk ids /\
    forall id, In id ids <->
      exists t, In t (history_txs h) /\ t_hash t = id /\ matches q (tx_events t) = MTrue.
Proof.
  intros h q D DOM NE WF. set (txs := history_txs h) in *. set (st := run_history h).
  assert (OK : StoreOK txs st) by (apply history_ok; exact D).
  assert (NR : forall c, In c q -> is_range_op (c_op c) = false)
    by (intros c I; apply (wf_not_range txs); auto).
  destruct (height_found txs q WF) as [H [LH HC]].
  unfold search. rewrite no_hash by (intros c I; apply (WF c I)).
  unfold look_for_ranges. rewrite no_ranges by exact NR.
  cbn [map all_some run_steps]. rewrite LH, filter_all by exact NR.
  destruct (run_steps (map (cond_hits st H) q) false []) as [i f2] eqn:R.
  eexists; split; [reflexivity|]. intro id.
  (* what being in every scan means *)
  assert (HITS : forall x, (forall tmp, In tmp (map (cond_hits st H) q) -> In x tmp) <->
            (forall c, In c q -> exists t, In t txs /\ x = t_hash t /\
               match_cond c (tx_events t) = MTrue /\ height_ok H c t)).
  { intro x. split.
    - intros A c I. apply (cond_hits_spec txs st OK DOM H c x (WF c I)). apply A.
      apply in_map; exact I.
    - intros A tmp I. apply in_map_iff in I as [c [<- I]].
      apply (cond_hits_spec txs st OK DOM H c x (WF c I)). auto. }
  assert (F2 : forall x, In x f2 <-> forall tmp, In tmp (map (cond_hits st H) q) -> In x tmp).
  { intro x. replace f2 with (snd (run_steps (map (cond_hits st H) q) false []))
      by (rewrite R; reflexivity).
    apply run_false. destruct q; [contradiction | discriminate]. }
  assert (NAME : forall x, In x f2 ->
            match get st x with Some r => t_hash r | None => "nil"%string end = x).
  { intros x I. pose proof (proj1 (HITS x) (proj1 (F2 x) I)) as I'.
    destruct q as [|c0 q']; [contradiction|].
    destruct (I' c0 (or_introl eq_refl)) as [t [A [B _]]].
    rewrite (proj2 (ok_prim _ _ OK x t)) by auto. auto. }
  assert (RES : In id (map (fun h0 => match get st h0 with Some r => t_hash r | None => "nil"%string end)
                         (sdedup f2)) <-> In id f2).
  { rewrite in_map_iff. split.
    - intros [x [E I]]. apply (proj1 (sdedup_In _ _)) in I. rewrite (NAME x I) in E. subst x. exact I.
    - intro I. exists id. split; [apply NAME; exact I | apply sdedup_In; exact I]. }
  rewrite RES, F2, HITS. split.
  - intro A. destruct q as [|c0 q'] eqn:Q; [contradiction|]. rewrite <- Q in *.
    assert (I0 : In c0 q) by (rewrite Q; left; reflexivity).
    destruct (A c0 I0) as [t [T1 [T2 _]]]. exists t. split; auto. split; auto.
    rewrite matches_nonnil by apply tx_events_nonnil. apply match_conds_all. intros c I.
    destruct (A c I) as [t' [T1' [T2' [M _]]]].
    assert (t' = t).
    { assert (G1 : get st id = Some t) by (apply (ok_prim _ _ OK); auto).
      assert (G2 : get st id = Some t') by (apply (ok_prim _ _ OK); auto). congruence. }
    subst t'. exact M.
  - intros [t [T1 [T2 M]]] c I. exists t. split; auto. split; auto.
    rewrite matches_nonnil in M by apply tx_events_nonnil.
    pose proof (proj1 (match_conds_all q (tx_events t)) M) as MA. split; [apply MA; exact I|].
    intros _ L. destruct (HC L) as [c' [I' [K' [O' A']]]].
    pose proof (MA c' I') as M'. destruct (WF c' I') as [_ [NK' W']].
    rewrite match_cond_vals in M' by (rewrite ?O'; congruence). rewrite O', A', K' in *.
    apply mv_int in M'; [|intros v Iv; apply (W' t v T1 Iv)].
    destruct M' as [z [Z1 Z2]]. simpl in Z2. apply Z.eqb_eq in Z2. subst z.
    apply In_vals, ext_in in Z1 as [Z1|[_ Z1]].
    + destruct (DOM t T1 _ _ Z1) as [_ [_ [X _]]]. contradiction.
    + apply dec_inj in Z1. auto.
Qed.

Print Assumptions C19_indexed_once.
Print Assumptions C19_search_exact_partial.

(* ------------------------------------------------------------------ concrete instances *)

Definition mk1 (h : string) (ht ix : Z) (attrs : list (string * string)) : txres :=
  {| t_hash := h; t_height := ht; t_index := ix; t_code := 0;
     t_events := [ {| e_type := "a";
                      e_attrs := map (fun kv => {| a_key := fst kv; a_val := snd kv; a_index := true |}) attrs |} ] |}.
Definition cnd (k : string) (o : opr) (a : operand) : cond := {| c_key := k; c_op := o; c_arg := a |}.

Definition found (id : string) (r : sres) : bool :=
  match r with SOk ids => smem id ids | _ => false end.
Definition sat (q : query) (t : txres) : bool := mres_eqb (matches q (tx_events t)) MTrue.

(* non-vacuity: a two-block history and a five-condition query inside the premises of
   C19_search_exact_partial; the search finds exactly transaction "0" *)
Definition nv_t0 := mk1 "0" 1 0 [("y", "p"); ("x", "7"); ("y", "q")]%string.
Definition nv_t1 := mk1 "1" 2 0 [("y", "p"); ("x", "5")]%string.
Definition nv_hist : list iop := [OBatch [nv_t0]; OIndex nv_t1].
Definition nv_q : query :=
  [cnd "tx.height" OpEq (OInt 1); cnd "a.y" OpEq (OStr "p"); cnd "a.x" OpEq (OInt 7);
   cnd "a.y" OpContains (OStr "q"); cnd "a.x" OpExists ONone]%string.

Example C19_indexed_once_nonvacuous :
  Distinct (history_txs nv_hist) /\
  In (["a.y"; "p"; "1"; "0"]%string, "0"%string) (s_idx (run_history nv_hist)) /\
  In (["tx.height"; "2"; "2"; "0"]%string, "1"%string) (s_idx (run_history nv_hist)) /\
  get (run_history nv_hist) "1"%string = Some nv_t1.
Proof.
  split; [split; vm_compute; repeat constructor; simpl; intuition discriminate|].
  vm_compute. intuition.
Qed.

Lemma nv_numok : forall v, In v ["1"; "2"; "5"; "7"]%string -> NumOK v.
Proof.
  intros v [<-|[<-|[<-|[<-|[]]]]];
    [exists 1 | exists 2 | exists 5 | exists 7]; vm_compute; auto.
Qed.

Example C19_search_exact_nonvacuous :
  Distinct (history_txs nv_hist) /\
  (forall t, In t (history_txs nv_hist) -> TxDomain t) /\
  nv_q <> [] /\
  (forall c, In c nv_q -> wf_cond (history_txs nv_hist) c) /\
  found "0" (search (run_history nv_hist) nv_q) = true /\
  found "1" (search (run_history nv_hist) nv_q) = false /\
  sat nv_q nv_t0 = true /\ sat nv_q nv_t1 = false.
Proof.
  split; [split; vm_compute; repeat constructor; simpl; intuition discriminate|].
  split.
  { intros t [<-|[<-|[]]] tag v I; vm_compute in I;
      repeat (destruct I as [I|I]; [injection I as <- <-; vm_compute; repeat split; discriminate|]);
      destruct I. }
  split; [discriminate|].
  split; [|vm_compute; auto 10].
  assert (NK : forall k, In k ["tx.height"; "a.x"]%string -> NumKey (history_txs nv_hist) k).
  { intros k [<-|[<-|[]]] t v [<-|[<-|[]]] I; vm_compute in I; apply nv_numok; simpl; tauto. }
  intros c [<-|[<-|[<-|[<-|[<-|[]]]]]]; unfold wf_cond; simpl;
    repeat split; try discriminate; try (apply NK; simpl; tauto).
Qed.

(* ---- the known classes, exhibited on the model (each also reproduced on the real code by a
   directed case of the harness) ---- *)

(* F17 (a): a value containing '/' is returned for "= 'p'" and missed by CONTAINS 'p' *)
Definition r17_t0 := mk1 "0" 1 0 [("y", "p/q")]%string.
Example C19_search_slash_refuted :
  let st := run_history [OBatch [r17_t0]] in
  found "0" (search st [cnd "a.y" OpEq (OStr "p")]) = true /\
  sat [cnd "a.y" OpEq (OStr "p")] r17_t0 = false /\
  found "0" (search st [cnd "a.y" OpContains (OStr "p")]) = false /\
  sat [cnd "a.y" OpContains (OStr "p")] r17_t0 = true.
Proof. vm_compute. auto. Qed.

(* F17 numeric strictness: "007" is 7 for the matcher, not found by "= 7" *)
Example C19_search_numeric_refuted :
  let t := mk1 "0" 1 0 [("x", "007")]%string in
  found "0" (search (run_history [OBatch [t]]) [cnd "a.x" OpEq (OInt 7)]) = false /\
  sat [cnd "a.x" OpEq (OInt 7)] t = true.
Proof. vm_compute. auto. Qed.

(* 24 (b): a tx.hash condition makes Search ignore every other condition *)
Example C19_search_hash_shortcut_refuted :
  let t := mk1 "0" 1 0 [("y", "p")]%string in
  let q := [cnd "tx.hash" OpEq (OStr "0"); cnd "tx.height" OpEq (OInt 99)] in
  found "0" (search (run_history [OBatch [t]]) q) = true /\ sat q t = false.
Proof. vm_compute. auto. Qed.

(* 25 (c): range conditions on one key are merged, the later bound wins *)
Example C19_search_merged_ranges_refuted :
  let t := mk1 "0" 1 0 [("x", "3")]%string in
  let q := [cnd "a.x" OpGt (OInt 5); cnd "a.x" OpGt (OInt 1)] in
  found "0" (search (run_history [OBatch [t]]) q) = true /\ sat q t = false.
Proof. vm_compute. auto. Qed.
Example C19_search_merged_ranges_multivalued_refuted :
  let t := mk1 "0" 1 0 [("x", "1"); ("x", "10")]%string in
  let q := [cnd "a.x" OpGt (OInt 5); cnd "a.x" OpLt (OInt 3)] in
  found "0" (search (run_history [OBatch [t]]) q) = false /\ sat q t = true.
Proof. vm_compute. auto. Qed.

(* 26 (d): TIME / DATE operands never find anything *)
Example C19_search_time_refuted :
  let t := mk1 "0" 1 0 [("y", "2013-05-03T14:45:00Z")]%string in
  let q := [cnd "a.y" OpGe (OTime 1367592300)] in
  found "0" (search (run_history [OBatch [t]]) q) = false /\ sat q t = true.
Proof. vm_compute. auto. Qed.

(* 27: EXISTS on a key without '.' *)
Example C19_search_exists_undotted_refuted :
  let t := mk1 "0" 1 0 [("y", "p")]%string in
  let q := [cnd "a" OpExists ONone] in
  found "0" (search (run_history [OBatch [t]]) q) = false /\ sat q t = true.
Proof. vm_compute. auto. Qed.
