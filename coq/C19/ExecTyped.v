(* C19 — executable side for the operand-type family of both kv indexers (finding F92; cases
   written by harness/overlay/state/txindex/kv/verif_c19_typed_test.go and
   harness/overlay/state/indexer/block/kv/verif_c19_typed_test.go).  Depends on ExecSearch.v /
   ExecBlock.v (case helpers) and TypedModel.v.

   A query = in-domain conditions of the existing generators followed by EXTRA conditions whose
   operands the other families never generate: float64 operands (n.0 / n.5) in range and "="
   conditions, tx.hash with EXISTS / an integer, tx.height = 'string' / float / DATE.  The text
   is accepted by query.New and evaluated by Query.Matches on every indexed item.

   CLAUSE (V_violation):
     21  Search PANICKED on a query text that query.New accepts, or returned WITHOUT an error a
         set different from the set of indexed items on which the real Query.Matches is true
         (an error - a refusal - is accepted)
   OBSERVABLES (V_mismatch): 31 / 41 the repaired model (TypedModel.v) vs the real Search
   (sets, error, panic) *)
From Coq Require Import String Ascii List ZArith NArith Bool.
From TM Require Import Common.Hex C19.SearchModel.
From TM Require Export C19.TypedModel.
From TM Require Export C19.ExecSearch C19.ExecBlock.
Import ListNotations.
Open Scope Z_scope.

Definition xcond_t := (string * opr * xarg)%type.
Definition mk_xcond (c : xcond_t) : xcond :=
  let '(k, o, a) := c in {| x_key := k; x_op := o; x_arg := a |}.

(* in-domain conditions; extra conditions; Search's answer; Matches per transaction *)
Definition tquery_t := (list cond_t * list xcond_t * ires * list N)%type.
Inductive tcase := TCase (hist : list sop_t) (qs : list tquery_t).

Definition xq_of (conds : list cond_t) (extra : list xcond_t) : xquery :=
  map (fun c => lift (mk_cond c)) conds ++ map mk_xcond extra.

Definition tquery_verdicts (st : store) (txs : list txres) (tq : tquery_t) : list verdict :=
  let '(conds, extra, ir, mv) := tq in
  let xq := xq_of conds extra in
  let satisfying := pick_true txs mv in
  [ viol (match ir with
          | IPanic => false
          | IErr => true
          | IOk ids => set_eqb ids satisfying && nodupb ids
          end) 21;
    mism (sres_agree (tx_search_typed st xq) ir) 31 ].

Definition tcheck (c : tcase) : verdict :=
  match c with
  | TCase hist qs =>
    let ops := map mk_op hist in
    first_of (flat_map (tquery_verdicts (run_history ops) (history_txs ops)) qs)
  end.

(* the block indexer *)
Definition btquery_t := (list cond_t * list xcond_t * bres * list N)%type.
Inductive btcase := BTCase (hist : list blk_t) (qs : list btquery_t).

Definition btquery_verdicts (st : bstore) (bs : list (block * bool)) (tq : btquery_t) : list verdict :=
  let '(conds, extra, ir, mv) := tq in
  let xq := xq_of conds extra in
  let satisfying := bpick_true bs mv in
  [ viol (match ir with
          | BPanic => false
          | BErr => true
          | BOk hs => zsubset hs satisfying && zsubset satisfying hs && strictly_asc hs
          end) 21;
    mism (bres_agree (block_search_typed st xq) ir) 41 ].

Definition btcheck (c : btcase) : verdict :=
  match c with
  | BTCase hist qs =>
    let bs := map (fun b => (mk_blk b, blk_ok b)) hist in
    first_of (flat_map (btquery_verdicts (brun (map fst bs)) bs) qs)
  end.
