(* C19 (search half, transactions) — integer conditions on ARBITRARY attribute values.
   No premise on the indexed values (no NumKey / canon): what TxIndex.Search does for a single
   integer condition is characterised exactly, next to what the pub/sub matcher does.
     key = n          Search: key-equality scan for the rendering of n     (the literal "dec n")
                      matcher: first run of [0-9.] of each value, ParseInt / ParseFloat
     key < <= > >= n  Search: strconv.ParseInt of the WHOLE value, unreadable values skipped
                      matcher: as above, an unreadable value aborts the match with an error
   Consequences (theorems below, each with a closed instance):
   * every non-canonical numeral the matcher reads as n ("007", "+7", "7.", "x7y", "7.9") is
     MISSED by "key = n" (false negative; known class 17);
   * range conditions are exact on a strictly larger class than canonical decimals: every value
     both readers read alike (ReadAlike: leading zeros, '+') is found exactly;
   * a value "-d" (d > 0) is a FALSE POSITIVE of "key < 0" and a false negative of "key > 0":
     the matcher's regular expression drops the sign, ParseInt keeps it (known class 17). *)
From Coq Require Import String Ascii List ZArith Bool Lia.
From TM Require Import C19.Query C19.SearchModel C19.SearchProofs C19.DecProofs
     C19.BlockModel C19.BlockProofs C19.SearchRangeProofs.
Import ListNotations.
Open Scope Z_scope.

Definition name_of (st : store) (h0 : hash) : hash :=
  match get st h0 with Some r => t_hash r | None => "nil"%string end.

(* ------------------------------------------------------------------ Search on a one-condition query *)

Lemma search_single_other : forall st c H,
  c_key c <> TxHashKey -> is_range_op (c_op c) = false -> look_for_height [c] = Some H ->
  search st [c] = SOk (map (name_of st) (sdedup (cond_hits st H c))).
Proof.
  intros st c H NH NR LH. unfold search. cbn [look_for_hash].
  destruct (String.eqb_spec (c_key c) TxHashKey) as [E|_]; [contradiction|].
  unfold look_for_ranges. cbn [fold_left]. rewrite NR. cbn [map all_some run_steps].
  rewrite LH. cbn [filter]. rewrite NR. cbn [negb map run_steps]. rewrite step_true.
  destruct (cond_hits st H c); reflexivity.
Qed.

Lemma search_single_range : forall st c hits,
  c_key c <> TxHashKey -> is_range_op (c_op c) = true ->
  range_hits st (single c) = Some hits ->
  search st [c] = SOk (map (name_of st) (sdedup hits)).
Proof.
  intros st c hits NH R RH. unfold search. cbn [look_for_hash].
  destruct (String.eqb_spec (c_key c) TxHashKey) as [E|_]; [contradiction|].
  unfold look_for_ranges. cbn [fold_left]. rewrite R. cbn [upd_range map]. fold (single c).
  rewrite RH. cbn [all_some run_steps]. rewrite step_true.
  assert (LH : look_for_height [c] = Some 0).
  { cbn [look_for_height]. destruct (c_op c); try discriminate R; rewrite andb_false_r; reflexivity. }
  assert (RS : run_steps [hits] false [] = (true, hits)).
  { cbn [run_steps]. rewrite step_true. destruct hits; reflexivity. }
  cbn [run_steps] in RS. rewrite step_true in RS. rewrite RS, LH. cbn [filter]. rewrite R.
  reflexivity.
Qed.

Section Arbitrary.
Variables (txs : list txres) (st : store).
Hypothesis OK : StoreOK txs st.
Hypothesis DOM : forall t, In t txs -> TxDomain t.

Lemma names_of_hits : forall f2,
  (forall x, In x f2 -> exists t, In t txs /\ x = t_hash t) ->
  forall id, In id (map (name_of st) (sdedup f2)) <-> In id f2.
Proof.
  intros f2 MEM id.
  assert (NAME : forall x, In x f2 -> name_of st x = x).
  { intros x I. destruct (MEM x I) as [t [T1 T2]]. unfold name_of.
    rewrite (proj2 (ok_prim _ _ OK x t)) by auto. auto. }
  rewrite in_map_iff. split.
  - intros [x [E I]]. apply (proj1 (sdedup_In _ _)) in I. rewrite (NAME x I) in E. subst x. exact I.
  - intro I. exists id. split; [apply NAME; exact I | apply sdedup_In; exact I].
Qed.

(* matchRange on an integer range, for arbitrary values: the transactions with a value of the
   key that strconv.ParseInt reads as an integer inside the bounds *)
Lemma trange_parse_spec : forall r lo hi,
  range_kind r = RInt lo hi -> no_slash (r_key r) = true ->
  exists hits, range_hits st r = Some hits /\
    forall id, In id hits <->
      exists t, In t txs /\ id = t_hash t /\
        exists v m, In (r_key r, v) (ext_attrs t) /\ parse_int_go v = Some m /\
                    olo lo m && ohi hi m = true.
Proof.
  intros r lo hi RK NS. unfold range_hits. rewrite RK. eexists. split; [reflexivity|].
  intro id. rewrite (split_no_slash _ NS), in_flat_map. split.
  - intros [[key id'] [I G]].
    apply (scan_entry txs st OK DOM) in I as [t [tag [v [T1 [T2 [T3 [-> P]]]]]]].
    apply pp1 in P. subst tag. cbn [fst snd] in G.
    change (is_tag_key [r_key r; v; dec (t_height t); dec (t_index t)]) with true in G.
    change (extract_value [r_key r; v; dec (t_height t); dec (t_index t)]) with v in G.
    destruct (parse_int_go v) as [m|] eqn:PI; [|destruct G].
    fold (olo lo m) in G. fold (ohi hi m) in G.
    destruct (olo lo m && ohi hi m) eqn:B; [|destruct G]. destruct G as [<-|[]].
    exists t. repeat split; auto. exists v, m. auto.
  - intros [t [T1 [T2 [v [m [T3 [PI B]]]]]]].
    exists ([r_key r; v; dec (t_height t); dec (t_index t)], id). split.
    + apply (scan_entry txs st OK DOM). exists t, (r_key r), v. repeat split; auto.
      apply pp1. reflexivity.
    + cbn [fst snd].
      change (is_tag_key [r_key r; v; dec (t_height t); dec (t_index t)]) with true.
      change (extract_value [r_key r; v; dec (t_height t); dec (t_index t)]) with v.
      rewrite PI. fold (olo lo m). fold (ohi hi m). rewrite B. left; reflexivity.
Qed.

(* "key = n": Search returns exactly the transactions carrying the LITERAL rendering of n under
   the key (for tx.height: the transactions of height n) *)
Theorem tx_search_eq_int_literal : forall k n, no_slash k = true -> k <> TxHashKey ->
  exists ids, search st [{| c_key := k; c_op := OpEq; c_arg := OInt n |}] = SOk ids /\
    forall id, In id ids <-> exists t, In t txs /\ t_hash t = id /\ In (dec n) (tvals k t).
Proof.
  intros k n NS NH. set (c := {| c_key := k; c_op := OpEq; c_arg := OInt n |}).
  set (H := if String.eqb k TxHeightKey then n else 0).
  assert (LH : look_for_height [c] = Some H).
  { unfold H, c. cbn [look_for_height c_key c_op c_arg]. rewrite andb_true_r.
    destruct (String.eqb k TxHeightKey); reflexivity. }
  rewrite (search_single_other st c H NH eq_refl LH). eexists. split; [reflexivity|].
  assert (HITS : forall id, In id (cond_hits st H c) <->
            exists t, In t txs /\ id = t_hash t /\ In (k, dec n) (ext_attrs t)).
  { intro id. unfold cond_hits, c. cbn [c_op c_arg c_key render_operand].
    rewrite (eq_hits txs st OK DOM k (dec n) H id NS). split.
    - intros [t [A [B [C _]]]]. exists t. auto.
    - intros [t [A [B C]]]. exists t. repeat split; auto. intro L. unfold H in L |- *.
      destruct (String.eqb_spec k TxHeightKey) as [->|_]; [|lia].
      apply ext_in in C as [C|[_ C]].
      + destruct (DOM t A _ _ C) as [_ [_ [X _]]]. contradiction.
      + apply dec_inj in C. auto. }
  intro id. rewrite names_of_hits.
  - rewrite HITS. split; intros [t [A [B C]]]; exists t; repeat split; auto; apply In_vals; exact C.
  - intros x I. apply HITS in I as [t [A [B _]]]. eauto.
Qed.

(* "key op n", op in < <= > >=: Search returns exactly the transactions with a value under the
   key that strconv.ParseInt reads as an integer m with m op n *)
Theorem tx_search_range_parseint : forall k op n,
  no_slash k = true -> k <> TxHashKey -> is_range_op op = true ->
  exists ids, search st [{| c_key := k; c_op := op; c_arg := OInt n |}] = SOk ids /\
    forall id, In id ids <->
      exists t, In t txs /\ t_hash t = id /\
        exists v m, In v (tvals k t) /\ parse_int_go v = Some m /\ cmp_ok op m n = true.
Proof.
  intros k op n NS NH R. set (c := {| c_key := k; c_op := op; c_arg := OInt n |}).
  destruct (one_bound_t k op n R) as [lo [hi [RK CMP]]]. fold c in RK.
  destruct (trange_parse_spec (single c) lo hi RK) as [hits [RH S]].
  { unfold single. rewrite apply_cond_key. exact NS. }
  rewrite (search_single_range st c hits NH R RH). eexists. split; [reflexivity|].
  assert (KEY : r_key (single c) = k) by (unfold single; rewrite apply_cond_key; reflexivity).
  intro id. rewrite names_of_hits.
  - rewrite S, KEY. split.
    + intros [t [A [B [v [m [C [P X]]]]]]]. exists t. repeat split; auto. exists v, m.
      rewrite <- CMP. repeat split; auto. apply In_vals. exact C.
    + intros [t [A [B [v [m [C [P X]]]]]]]. exists t. repeat split; auto. exists v, m.
      rewrite CMP. repeat split; auto. apply In_vals. exact C.
  - intros x I. apply S in I as [t [A [B _]]]. eauto.
Qed.

End Arbitrary.

(* ------------------------------------------------------------------ the matcher on one integer condition *)

Lemma matches_single : forall k op n t, op <> OpExists -> k <> TxHashKey ->
  matches [{| c_key := k; c_op := op; c_arg := OInt n |}] (tx_events t)
  = match_values (tvals k t) op (OInt n).
Proof.
  intros k op n t NE NH. rewrite matches_nonnil by apply tx_events_nonnil. cbn [match_conds].
  rewrite match_cond_vals by (cbn [c_op c_key]; assumption). cbn [c_key c_op c_arg].
  destruct (match_values (tvals k t) op (OInt n)); reflexivity.
Qed.

Lemma cmp_num_ok : forall op z x, cmp_num op z x = if cmp_ok op z x then MTrue else MFalse.
Proof. intros [] z x; reflexivity. Qed.

(* every value readable: the matcher accepts iff some value reads as an m with m op n *)
Lemma mv_int_readable : forall vs op x, (forall v, In v vs -> value_as_int v <> None) ->
  (match_values vs op (OInt x) = MTrue <->
   exists v m, In v vs /\ value_as_int v = Some m /\ cmp_ok op m x = true).
Proof.
  induction vs as [|v vs IH]; intros op x RD; cbn [match_values match_value].
  - split; [discriminate | intros [v [m [[] _]]]].
  - destruct (value_as_int v) as [m|] eqn:V; [|exfalso; apply (RD v); [left; reflexivity | exact V]].
    rewrite cmp_num_ok. destruct (cmp_ok op m x) eqn:C.
    + split; [|reflexivity]. intros _. exists v, m. cbn [In]. auto.
    + rewrite IH by (intros w I; apply RD; right; exact I). split.
      * intros [w [m' [A B]]]. exists w, m'. cbn [In]. tauto.
      * intros [w [m' [[<-|A] [B1 B2]]]]; [congruence | exists w, m'; auto].
Qed.

(* a value the two readers read alike (and do read) *)
Definition ReadAlike (v : string) : Prop :=
  exists m, value_as_int v = Some m /\ parse_int_go v = Some m.

Lemma readalike_canon : forall v, canon v = true -> ReadAlike v.
Proof. intros v C. apply NumOK_canon in C as [z [_ [A B]]]. exists z. auto. Qed.

(* digits with leading zeros, '+' and digits: read alike (as long as the value fits int64) *)
Lemma readalike_digits : forall s, all_digits s = true -> s <> EmptyString ->
  digits_val 0 s <= max_int64 -> ReadAlike s /\ ReadAlike (String "+" s).
Proof.
  intros s A NE L. destruct (digits_read s A NE) as [V P]. destruct (plus_read s A NE) as [V' P'].
  assert (R : read_digits s = Some (digits_val 0 s)).
  { unfold read_digits. destruct (Z.leb_spec (digits_val 0 s) max_int64); [reflexivity | lia]. }
  split; exists (digits_val 0 s); split; congruence.
Qed.

(* ------------------------------------------------------------------ consequences *)

Section Consequences.
Variable h : list iop.
Hypothesis D : Distinct (history_txs h).
Hypothesis DOM : forall t, In t (history_txs h) -> TxDomain t.

(* range conditions are EXACT wherever both readers read every value of the key alike: a
   strictly larger class than the canonical decimals of C19_tx_search_exact_ranges (one
   condition; "007", "+7", "00" allowed) *)
Theorem tx_search_range_exact_readalike : forall k op n,
  no_slash k = true -> k <> TxHashKey -> is_range_op op = true ->
  (forall t v, In t (history_txs h) -> In v (tvals k t) -> ReadAlike v) ->
  let q := [{| c_key := k; c_op := op; c_arg := OInt n |}] in
  exists ids, search (run_history h) q = SOk ids /\
    forall id, In id ids <->
      exists t, In t (history_txs h) /\ t_hash t = id /\ matches q (tx_events t) = MTrue.
Proof.
  intros k op n NS NH R RA q.
  destruct (tx_search_range_parseint _ _ (history_ok h D) DOM k op n NS NH R) as [ids [S E]].
  exists ids. split; [exact S|]. intro id. rewrite E.
  assert (NE : op <> OpExists) by (destruct op; discriminate).
  split; intros [t [A [B C]]]; exists t; (split; [exact A|]); (split; [exact B|]).
  - unfold q. rewrite (matches_single k op n t NE NH). apply mv_int_readable.
    + intros v I X. destruct (RA t v A I) as [m [V _]]. congruence.
    + destruct C as [v [m [I [P X]]]]. exists v, m. split; [exact I|]. split; [|exact X].
      destruct (RA t v A I) as [m' [V P']]. congruence.
  - unfold q in C. rewrite (matches_single k op n t NE NH) in C. apply mv_int_readable in C.
    + destruct C as [v [m [I [V X]]]]. exists v, m. split; [exact I|]. split; [|exact X].
      destruct (RA t v A I) as [m' [V' P']]. congruence.
    + intros v I X. destruct (RA t v A I) as [m [V _]]. congruence.
Qed.

(* FALSE NEGATIVE of "key = n", in general: a transaction whose only value under the key is a
   non-canonical numeral that the matcher reads as n satisfies the query and is not returned *)
Theorem tx_search_eq_noncanonical_missed : forall k n t v,
  no_slash k = true -> k <> TxHashKey ->
  In t (history_txs h) -> tvals k t = [v] -> value_as_int v = Some n -> canon v = false ->
  let q := [{| c_key := k; c_op := OpEq; c_arg := OInt n |}] in
  matches q (tx_events t) = MTrue /\
  exists ids, search (run_history h) q = SOk ids /\ ~ In (t_hash t) ids.
Proof.
  intros k n t v NS NH T TV V C q. split.
  - unfold q. rewrite matches_single by (discriminate || exact NH). rewrite TV.
    cbn [match_values match_value]. rewrite V. cbn [cmp_num]. rewrite Z.eqb_refl. reflexivity.
  - destruct (tx_search_eq_int_literal _ _ (history_ok h D) DOM k n NS NH) as [ids [S E]].
    exists ids. split; [exact S|]. intro I. apply E in I as [t' [A [B I]]].
    assert (t' = t).
    { pose proof (history_ok h D) as OK.
      assert (G1 : get (run_history h) (t_hash t) = Some t) by (apply (ok_prim _ _ OK); auto).
      assert (G2 : get (run_history h) (t_hash t) = Some t') by (apply (ok_prim _ _ OK); auto).
      congruence. }
    subst t'. rewrite TV in I. destruct I as [I|[]].
    exact (noncanon_not_rendered v n C V I).
Qed.

(* FALSE POSITIVE of "key < 0" (and false negative of "key > 0"): a value "-d", d > 0 *)
Theorem tx_search_range_sign_disagrees : forall k t s,
  no_slash k = true -> k <> TxHashKey ->
  In t (history_txs h) -> tvals k t = [String "-" s] ->
  all_digits s = true -> 0 < digits_val 0 s <= max_int64 ->
  let lt0 := [{| c_key := k; c_op := OpLt; c_arg := OInt 0 |}] in
  let gt0 := [{| c_key := k; c_op := OpGt; c_arg := OInt 0 |}] in
  matches lt0 (tx_events t) = MFalse /\ matches gt0 (tx_events t) = MTrue /\
  (exists ids, search (run_history h) lt0 = SOk ids /\ In (t_hash t) ids) /\
  (exists ids, search (run_history h) gt0 = SOk ids /\ ~ In (t_hash t) ids).
Proof.
  intros k t s NS NH T TV A [L U] lt0 gt0.
  assert (NE : s <> EmptyString) by (intro X; subst s; cbn in L; lia).
  destruct (minus_read s A NE) as [V P].
  assert (V' : value_as_int (String "-" s) = Some (digits_val 0 s)).
  { rewrite V. unfold read_digits. destruct (Z.leb_spec (digits_val 0 s) max_int64); [reflexivity | lia]. }
  assert (P' : parse_int_go (String "-" s) = Some (- digits_val 0 s)).
  { rewrite P. destruct (Z.leb_spec (digits_val 0 s) (max_int64 + 1)); [reflexivity | lia]. }
  assert (SAME : forall t', In t' (history_txs h) -> t_hash t' = t_hash t -> t' = t).
  { intros t' A' B'. pose proof (history_ok h D) as OK.
    assert (G1 : get (run_history h) (t_hash t) = Some t) by (apply (ok_prim _ _ OK); auto).
    assert (G2 : get (run_history h) (t_hash t) = Some t') by (apply (ok_prim _ _ OK); auto).
    congruence. }
  split; [|split; [|split]].
  - unfold lt0. rewrite matches_single by (discriminate || exact NH). rewrite TV.
    cbn [match_values match_value]. rewrite V'. cbn [cmp_num].
    destruct (Z.ltb_spec (digits_val 0 s) 0); [lia | reflexivity].
  - unfold gt0. rewrite matches_single by (discriminate || exact NH). rewrite TV.
    cbn [match_values match_value]. rewrite V'. cbn [cmp_num].
    replace (digits_val 0 s >? 0) with true by (symmetry; apply Z.gtb_lt; lia). reflexivity.
  - destruct (tx_search_range_parseint _ _ (history_ok h D) DOM k OpLt 0 NS NH eq_refl) as [ids [S E]].
    exists ids. split; [exact S|]. apply E. exists t. split; [exact T|]. split; [reflexivity|].
    exists (String "-" s), (- digits_val 0 s). rewrite TV. split; [left; reflexivity|].
    split; [exact P'|]. cbn [cmp_ok]. apply Z.ltb_lt. lia.
  - destruct (tx_search_range_parseint _ _ (history_ok h D) DOM k OpGt 0 NS NH eq_refl) as [ids [S E]].
    exists ids. split; [exact S|]. intro I. apply E in I as [t' [A' [B' [v [m [I [PI X]]]]]]].
    rewrite (SAME t' A' B') in I. rewrite TV in I. destruct I as [<-|[]].
    rewrite P' in PI. injection PI as <-. cbn [cmp_ok] in X. apply Z.gtb_lt in X. lia.
Qed.

End Consequences.

Lemma tx_search_int_arbitrary_values : forall (h : list iop) (k : string) (n : Z),
  Distinct (history_txs h) ->
  (forall t, In t (history_txs h) -> TxDomain t) ->
  no_slash k = true -> k <> TxHashKey ->
  (exists ids, search (run_history h) [{| c_key := k; c_op := OpEq; c_arg := OInt n |}] = SOk ids /\
     forall id, In id ids <->
       exists t, In t (history_txs h) /\ t_hash t = id /\ In (dec n) (tvals k t)) /\
  (forall op, is_range_op op = true ->
   exists ids, search (run_history h) [{| c_key := k; c_op := op; c_arg := OInt n |}] = SOk ids /\
     forall id, In id ids <->
       exists t, In t (history_txs h) /\ t_hash t = id /\
         exists v m, In v (tvals k t) /\ parse_int_go v = Some m /\ cmp_ok op m n = true).
Proof.
  intros h k n D DOM NS NH. split.
  - exact (tx_search_eq_int_literal _ _ (history_ok h D) DOM k n NS NH).
  - intros op R. exact (tx_search_range_parseint _ _ (history_ok h D) DOM k op n NS NH R).
Qed.

(* ------------------------------------------------------------------ closed instances *)

Definition nm_t (v : string) : txres := mk1 "0" 1 0 [("x", v)]%string.
Definition nm_q (op : opr) (n : Z) : query := [cnd "a.x" op (OInt n)]%string.

(* premises of the theorems above on a one-transaction history with value v *)
Lemma nm_premises : forall v, no_slash v = true ->
  Distinct (history_txs [OIndex (nm_t v)]) /\
  (forall t, In t (history_txs [OIndex (nm_t v)]) -> TxDomain t) /\
  tvals "a.x" (nm_t v) = [v].
Proof.
  intros v NS. split; [|split].
  - split; cbn; repeat constructor; cbn; tauto.
  - intros t [<-|[]] tag w I. cbn in I. destruct I as [I|[]]. injection I as <- <-.
    repeat split; try reflexivity; try exact NS; discriminate.
  - reflexivity.
Qed.

(* "007": missed by "= 7", found by the ranges around 7 (ReadAlike) *)
Example numeral_007 :
  canon "007" = false /\ ReadAlike "007" /\
  sat (nm_q OpEq 7) (nm_t "007") = true /\
  search (run_history [OIndex (nm_t "007")]) (nm_q OpEq 7) = SOk [] /\
  sat (nm_q OpGe 7) (nm_t "007") = true /\
  search (run_history [OIndex (nm_t "007")]) (nm_q OpGe 7) = SOk ["0"%string] /\
  sat (nm_q OpLt 7) (nm_t "007") = false /\
  search (run_history [OIndex (nm_t "007")]) (nm_q OpLt 7) = SOk [].
Proof.
  split; [reflexivity|]. split; [exists 7; split; reflexivity|]. vm_compute. auto 10.
Qed.

(* "+5": the same *)
Example numeral_plus5 :
  canon "+5" = false /\ ReadAlike "+5" /\
  sat (nm_q OpEq 5) (nm_t "+5") = true /\
  search (run_history [OIndex (nm_t "+5")]) (nm_q OpEq 5) = SOk [] /\
  sat (nm_q OpLe 5) (nm_t "+5") = true /\
  search (run_history [OIndex (nm_t "+5")]) (nm_q OpLe 5) = SOk ["0"%string].
Proof.
  split; [reflexivity|]. split; [exists 5; split; reflexivity|]. vm_compute. auto 10.
Qed.

(* "-0": read alike (0), still missed by "= 0"; "-5": false positive of "< 0" *)
Example numeral_minus :
  ReadAlike "-0" /\ sat (nm_q OpEq 0) (nm_t "-0") = true /\
  search (run_history [OIndex (nm_t "-0")]) (nm_q OpEq 0) = SOk [] /\
  search (run_history [OIndex (nm_t "-0")]) (nm_q OpLe 0) = SOk ["0"%string] /\
  sat (nm_q OpLt 0) (nm_t "-5") = false /\
  search (run_history [OIndex (nm_t "-5")]) (nm_q OpLt 0) = SOk ["0"%string] /\
  sat (nm_q OpGt 0) (nm_t "-5") = true /\
  search (run_history [OIndex (nm_t "-5")]) (nm_q OpGt 0) = SOk [].
Proof. split; [exists 0; split; reflexivity|]. vm_compute. auto 10. Qed.

(* above MaxInt64: the matcher errors (no match), the indexer skips the value: both find
   nothing (an operand above MaxInt64 is rejected by the query parser: not modelled) *)
Example numeral_overflow :
  matches (nm_q OpGt 0) (tx_events (nm_t "9223372036854775808")) = MErr /\
  search (run_history [OIndex (nm_t "9223372036854775808")]) (nm_q OpGt 0) = SOk [].
Proof. vm_compute. auto. Qed.

(* non-vacuity of the general theorems *)
Example tx_search_eq_noncanonical_missed_nonvacuous :
  let h := [OIndex (nm_t "007")] in
  Distinct (history_txs h) /\ (forall t, In t (history_txs h) -> TxDomain t) /\
  no_slash "a.x" = true /\ "a.x"%string <> TxHashKey /\ In (nm_t "007") (history_txs h) /\
  tvals "a.x" (nm_t "007") = ["007"%string] /\ value_as_int "007" = Some 7 /\ canon "007" = false.
Proof.
  destruct (nm_premises "007" eq_refl) as [D [DOM TV]].
  cbv zeta. split; [exact D|]. split; [exact DOM|]. split; [reflexivity|]. split; [discriminate|].
  split; [left; reflexivity|]. split; [exact TV|]. split; reflexivity.
Qed.

Example tx_search_range_sign_disagrees_nonvacuous :
  let h := [OIndex (nm_t "-5")] in
  Distinct (history_txs h) /\ (forall t, In t (history_txs h) -> TxDomain t) /\
  In (nm_t "-5") (history_txs h) /\ tvals "a.x" (nm_t "-5") = [String "-" "5"] /\
  all_digits "5" = true /\ 0 < digits_val 0 "5" <= max_int64.
Proof.
  destruct (nm_premises "-5" eq_refl) as [D [DOM TV]].
  cbv zeta. split; [exact D|]. split; [exact DOM|]. split; [left; reflexivity|].
  split; [exact TV|]. split; [reflexivity|]. unfold max_int64. vm_compute. split; [reflexivity | discriminate].
Qed.

Example tx_search_range_exact_readalike_nonvacuous :
  let h := [OBatch [mk1 "0" 1 0 [("x", "007"); ("x", "+9")]; mk1 "1" 1 1 [("x", "8")]]]%string in
  (forall t v, In t (history_txs h) -> In v (tvals "a.x" t) -> ReadAlike v) /\
  search (run_history h) (nm_q OpGe 8) = SOk ["1"; "0"]%string /\
  search (run_history h) (nm_q OpLt 8) = SOk ["0"]%string.
Proof.
  cbv zeta. split; [|vm_compute; auto].
  intros t v [<-|[<-|[]]] I; vm_compute in I;
    repeat (destruct I as [<-|I]; [eexists; split; reflexivity|]); destruct I.
Qed.

Print Assumptions tx_search_eq_int_literal.
Print Assumptions tx_search_range_parseint.
Print Assumptions tx_search_range_exact_readalike.
Print Assumptions tx_search_eq_noncanonical_missed.
Print Assumptions tx_search_range_sign_disagrees.
