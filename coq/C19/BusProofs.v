(* C19 — the event map of the event bus holds every value of every attribute. *)
From Coq Require Import String List ZArith Bool.
From TM Require Import C19.Query C19.SearchModel C19.SearchProofs C19.BlockModel C19.BusModel.
Import ListNotations.

Lemma all_attrs_in : forall evs e a, In e evs -> e_type e <> EmptyString -> In a (e_attrs e) ->
  a_key a <> EmptyString ->
  In ((e_type e ++ "." ++ a_key a)%string, a_val a, a_index a) (all_attrs evs).
Proof.
  intros evs e a Ie Te Ia Ka. unfold all_attrs. apply in_flat_map. exists e. split; auto.
  unfold ev_attrs. destruct (e_type e) eqn:T; [contradiction|]. simpl.
  apply in_flat_map. exists a. split; auto. destruct (a_key a) eqn:K; [contradiction|]. simpl. auto.
Qed.

Lemma lookup_pairs : forall l k v, In (k, v) l ->
  ev_lookup k (group l) = Some (vals_of k l) /\ In v (vals_of k l).
Proof.
  intros l k v I. rewrite ev_lookup_group.
  assert (S : smem k (map fst l) = true) by (apply smem_fst; eauto).
  rewrite S. split; [reflexivity | apply In_vals; exact I].
Qed.

(* C19_eventbus_map_complete: for every Publish* method, every list of ABCI events and every
   attribute with a non-empty key of an event with a non-empty type — whatever its Index flag,
   however often the event type and the key are repeated — the event map handed to pub/sub has
   the composite key type.key, and under it exactly the values of ALL attributes with that
   composite key (reserved pairs appended by the method included), in order: in particular
   this attribute's value.  The same for the reserved pairs themselves. *)
Theorem C19_eventbus_map_complete : forall k evs hash height,
  (forall e a, In e evs -> e_type e <> EmptyString -> In a (e_attrs e) -> a_key a <> EmptyString ->
     let ck := (e_type e ++ "." ++ a_key a)%string in
     ev_lookup ck (bus_map k evs hash height)
       = Some (vals_of ck (bus_pairs evs ++ reserved_pairs k hash height)) /\
     In (a_val a) (vals_of ck (bus_pairs evs ++ reserved_pairs k hash height))) /\
  (forall rk rv, In (rk, rv) (reserved_pairs k hash height) ->
     ev_lookup rk (bus_map k evs hash height)
       = Some (vals_of rk (bus_pairs evs ++ reserved_pairs k hash height)) /\
     In rv (vals_of rk (bus_pairs evs ++ reserved_pairs k hash height))).
Proof.
  intros k evs hash height. split.
  - intros e a Ie Te Ia Ka ck. unfold bus_map. apply lookup_pairs. apply in_app_iff. left.
    unfold bus_pairs. apply in_map_iff. exists (ck, a_val a, a_index a). split; [reflexivity|].
    apply all_attrs_in; assumption.
  - intros rk rv I. unfold bus_map. apply lookup_pairs. apply in_app_iff. right. exact I.
Qed.

Print Assumptions C19_eventbus_map_complete.

Local Open Scope string_scope.

(* two transfer events in one transaction: both recipients are in the map, and a query on the
   first one matches *)
Definition bus_ex_evs : list event :=
  [ {| e_type := "transfer"; e_attrs := [ {| a_key := "to"; a_val := "alice"; a_index := true |};
                                          {| a_key := "amount"; a_val := "5"; a_index := false |} ] |};
    {| e_type := ""; e_attrs := [ {| a_key := "to"; a_val := "nobody"; a_index := true |} ] |};
    {| e_type := "transfer"; e_attrs := [ {| a_key := "to"; a_val := "bob"; a_index := true |};
                                          {| a_key := ""; a_val := "x"; a_index := true |};
                                          {| a_key := "amount"; a_val := "7"; a_index := false |} ] |} ].

Example C19_eventbus_map_complete_nonvacuous :
  bus_map KTx bus_ex_evs "AB" 3 =
    [("transfer.to", ["alice"; "bob"]); ("transfer.amount", ["5"; "7"]);
     ("tm.event", ["Tx"]); ("tx.hash", ["AB"]); ("tx.height", ["3"])] /\
  matches [{| c_key := "transfer.to"; c_op := OpEq; c_arg := OStr "alice" |};
           {| c_key := "transfer.amount"; c_op := OpGt; c_arg := OInt 6 |}]
          (bus_map KTx bus_ex_evs "AB" 3) = MTrue.
Proof. vm_compute. auto. Qed.
