(* C19 (search half, finding F92) — Search of both kv indexers on the operand types the query
   grammar accepts beyond the ones SearchModel.v / BlockModel.v cover: float64 operands, and
   the reserved keys tx.hash / tx.height with operands of another type or EXISTS.  NO proofs.

   This is the code AS REPAIRED by fixes/F92-search-operand-types.diff:
   * indexer.CheckRangeOperands (both Search functions, right after Conditions()): a range
     condition (< <= > >=) with a float64 operand is REFUSED with an error (the indexed values
     are compared as integers; the unrepaired code panics "not implemented" in
     QueryRange.LowerBoundValue / UpperBoundValue for an exclusive bound, silently finds nothing
     for an inclusive one, and panics in matchRange on upperBound.(int64) next to an integer
     bound);
   * txindex/kv lookForHash: a tx.hash condition whose operand is not a string (EXISTS, an
     integer, ...) is refused with an error (unrepaired: c.Operand.(string) panics);
   * txindex/kv lookForHeight: a "tx.height = X" whose operand is not an int64 does not narrow
     the scans and is evaluated like every other condition (unrepaired: c.Operand.(int64)
     panics; the twin of F47 in the block indexer).
   * block/kv Search: a float64 operand on block.height is refused with an error (the primary
     key holds the height as an integer; unrepaired: block.height = 3.0 finds nothing).
   A float operand of a condition that is not a range condition goes, as before, through the
   generic scan with its fmt %v rendering ("2" for 2.0, "2.5"): [base_arg]. *)
From Coq Require Import String Ascii List ZArith Bool.
From TM Require Import C19.Query C19.SearchModel C19.BlockModel.
Import ListNotations.
Open Scope Z_scope.

(* an operand: one of Query.v's, or the float64 n / n + 0.5 (n >= 1: the grammar has no
   float literal below 1) *)
Inductive xarg := XA (a : operand) | XFloat (n : Z) (half : bool).
Record xcond := { x_key : string; x_op : opr; x_arg : xarg }.
Definition xquery := list xcond.

(* what the generic scan sees: fmt "%v" of the operand *)
Definition base_arg (x : xarg) : operand :=
  match x with
  | XA a => a
  | XFloat n false => OInt n
  | XFloat n true => OStr (dec n ++ ".5")
  end.
Definition base (c : xcond) : cond :=
  {| c_key := x_key c; c_op := x_op c; c_arg := base_arg (x_arg c) |}.
Definition lift (c : cond) : xcond :=
  {| x_key := c_key c; x_op := c_op c; x_arg := XA (c_arg c) |}.

Definition is_float (x : xarg) : bool := match x with XFloat _ _ => true | _ => false end.
(* indexer.CheckRangeOperands fails *)
Definition float_range (c : xcond) : bool := is_range_op (x_op c) && is_float (x_arg c).

(* lookForHash, repaired *)
Inductive hres_r := RNone | RFound (h : hash) | RErr.
Fixpoint look_for_hash_r (q : xquery) : hres_r :=
  match q with
  | [] => RNone
  | c :: r => if String.eqb (x_key c) TxHashKey
              then match x_arg c with XA (OStr s) => RFound s | _ => RErr end
              else look_for_hash_r r
  end.

(* lookForHeight, repaired *)
Fixpoint look_for_height_r (q : xquery) : Z :=
  match q with
  | [] => 0
  | c :: r =>
    if String.eqb (x_key c) TxHeightKey && match x_op c with OpEq => true | _ => false end
    then match x_arg c with XA (OInt z) => z | _ => look_for_height_r r end
    else look_for_height_r r
  end.

(* TxIndex.Search, repaired *)
Definition tx_search_typed (st : store) (xq : xquery) : sres :=
  if existsb float_range xq then SErr
  else match look_for_hash_r xq with
  | RErr => SErr
  | RFound h => match get st h with Some r => SOk [t_hash r] | None => SOk [] end
  | RNone =>
    let q := map base xq in
    match all_some (map (range_hits st) (look_for_ranges q)) with
    | None => SPanic
    | Some rhits =>
      let '(init1, f1) := run_steps rhits false [] in
      let height := look_for_height_r xq in
      let others := filter (fun c => negb (is_range_op (c_op c))) q in
      let '(_, f2) := run_steps (map (cond_hits st height) others) init1 f1 in
      SOk (map (fun h => match get st h with Some r => t_hash r | None => "nil"%string end)
               (sdedup f2))
    end
  end.

(* BlockerIndexer.Search, repaired *)
(* the primary key holds the height as an integer: a float operand on block.height is refused *)
Definition float_height (c : xcond) : bool :=
  String.eqb (x_key c) BlockHeightKey && is_float (x_arg c).

Definition block_search_typed (st : bstore) (xq : xquery) : bres :=
  if existsb float_range xq || existsb float_height xq then BErr else bsearch st (map base xq).
