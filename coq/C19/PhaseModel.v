(* C19 — the Server-level bookkeeping of libs/pubsub/pubsub.go (Server.subscriptions, guarded
   by Server.mtx) when several API calls are IN FLIGHT AT ONCE.  NO proofs.

   Every call of Subscribe / Unsubscribe / UnsubscribeAll runs in three phases:
     check   under mtx.RLock: Subscribe refuses a registered pair (ErrAlreadySubscribed),
             Unsubscribe a pair / UnsubscribeAll a client that is not registered
             (ErrSubscriptionNotFound); nothing is written;
     enqueue `s.cmds <- cmd`: the command is taken by the server loop, which processes the
             commands one at a time in the order it took them (state.add / remove /
             removeClient; only the loop touches its tables);
     post    under mtx.Lock: Server.subscriptions is updated (add the pair / delete the pair and
             the client's entry when it became empty / delete the client's entry).
   Between the phases of one call any phases of other calls may run.  Model.v (step) is the
   special case in which the three phases of a call are adjacent.

   [pstep_f] models the code AS REPAIRED FOR F59 (Unsubscribe's post phase looks the client's
   entry up again under the write lock; state.add keeps the subscription it already has and
   cancels the new one with ErrAlreadySubscribed).  Server.subscriptions is then a function of
   the set of registered pairs (inner maps are created non-empty and deleted when empty), so it
   is the flat set [srv].  [ostep_f] models the ORIGINAL Server.subscriptions, where Unsubscribe
   keeps using the inner map it read during its check: map objects have identities there.

   The loop's side is abstract: [tab] = the pairs present in state.subscriptions, [dropped] = a
   ghost set, the pairs removed by send for ErrOutOfCapacity and not unsubscribed since (the
   Server keeps such a pair registered until the client unsubscribes; Model.v, C19_delivery_exact).
   Taking a command and processing it are one step ([PEnq]): only the loop touches [tab], in
   the order it took the commands, so when it does so relative to the other phases is
   unobservable at the points where no call is in flight. *)
From Coq Require Import List Bool Arith.
From TM Require Import C19.Query C19.Model.
Import ListNotations.

Inductive call := CSub (c q : nat) | CUnsub (c q : nat) | CUnsubAll (c : nat).

Definition kmem (k : key) (s : list key) : bool := existsb (key_eqb k) s.
Definition kdel (k : key) (s : list key) : list key := filter (fun k' => negb (key_eqb k k')) s.
Definition cdel (c : nat) (s : list key) : list key := filter (fun k' => negb (Nat.eqb (fst k') c)) s.
Definition kadd (k : key) (s : list key) : list key := if kmem k s then s else s ++ [k].

(* the check phase *)
Definition pcheck (s : list key) (o : call) : bool :=
  match o with
  | CSub c q => negb (kmem (c, q) s)
  | CUnsub c q => kmem (c, q) s
  | CUnsubAll c => existsb (fun k => Nat.eqb (fst k) c) s
  end.

(* the post phase (repaired) *)
Definition ppost (o : call) (s : list key) : list key :=
  match o with
  | CSub c q => kadd (c, q) s
  | CUnsub c q => kdel (c, q) s
  | CUnsubAll c => cdel c s
  end.

Record pst := {
  srv : list key;        (* Server.subscriptions *)
  tab : list key;        (* the loop's table *)
  dropped : list key;    (* ghost: cancelled for capacity, not unsubscribed since *)
  waiting : list call;   (* check passed, command not yet taken by the loop *)
  posting : list call    (* command taken, post phase pending; oldest first *)
}.
Definition pinit : pst := {| srv := []; tab := []; dropped := []; waiting := []; posting := [] |}.

Fixpoint remove_nth {A} (i : nat) (l : list A) : list A :=
  match i, l with
  | _, [] => []
  | 0, _ :: r => r
  | S i', x :: r => x :: remove_nth i' r
  end.

Inductive pstep :=
| PCheck (o : call)      (* a call starts: its check phase *)
| PEnq (i : nat)         (* the loop takes (and processes) the command of the i-th waiting call *)
| PPost                  (* the post phase of the call whose command was taken first *)
| PPostAny (i : nat)     (* the post phase of the i-th call whose command was taken *)
| PDrop (k : key).       (* send removes a live pair for ErrOutOfCapacity *)

(* the loop processes a command (state.add as repaired / remove / removeClient) *)
Definition loop_tab (o : call) (t : list key) : list key :=
  match o with
  | CSub c q => kadd (c, q) t
  | CUnsub c q => kdel (c, q) t
  | CUnsubAll c => cdel c t
  end.
Definition loop_dropped (o : call) (d : list key) : list key :=
  match o with
  | CSub c q => kdel (c, q) d
  | CUnsub c q => kdel (c, q) d
  | CUnsubAll c => cdel c d
  end.

Definition pstep_f (s : pst) (x : pstep) : pst :=
  match x with
  | PCheck o =>
    if pcheck (srv s) o
    then {| srv := srv s; tab := tab s; dropped := dropped s;
            waiting := waiting s ++ [o]; posting := posting s |}
    else s
  | PEnq i =>
    match nth_error (waiting s) i with
    | Some o => {| srv := srv s; tab := loop_tab o (tab s); dropped := loop_dropped o (dropped s);
                   waiting := remove_nth i (waiting s); posting := posting s ++ [o] |}
    | None => s
    end
  | PPost =>
    match posting s with
    | o :: r => {| srv := ppost o (srv s); tab := tab s; dropped := dropped s;
                   waiting := waiting s; posting := r |}
    | [] => s
    end
  | PPostAny i =>
    match nth_error (posting s) i with
    | Some o => {| srv := ppost o (srv s); tab := tab s; dropped := dropped s;
                   waiting := waiting s; posting := remove_nth i (posting s) |}
    | None => s
    end
  | PDrop k =>
    if kmem k (tab s)
    then {| srv := srv s; tab := kdel k (tab s); dropped := kadd k (dropped s);
            waiting := waiting s; posting := posting s |}
    else s
  end.

Definition prun (xs : list pstep) : pst := fold_left pstep_f xs pinit.

(* no call is in flight *)
Definition quiescent (s : pst) : bool :=
  match waiting s, posting s with [], [] => true | _, _ => false end.

(* post phases happen in the order the commands were taken *)
Definition in_order (x : pstep) : bool := match x with PPostAny _ => false | _ => true end.

(* ------------------------------------------------------------------ the ORIGINAL Server.subscriptions
   clientID -> inner map; an inner map is an object: [ents] client -> object id, [objs]
   object id -> its queries.  Unsubscribe's check remembers the object id it read. *)

Record osrv := { ents : list (nat * nat); objs : list (nat * list nat); nextid : nat }.
Definition oinit : osrv := {| ents := []; objs := []; nextid := 0 |}.

Definition oqueries (s : osrv) (c : nat) : list nat :=
  match alookup Nat.eqb c (ents s) with
  | Some id => match alookup Nat.eqb id (objs s) with Some qs => qs | None => [] end
  | None => []
  end.
Definition omem (k : key) (s : osrv) : bool := memn (snd k) (oqueries s (fst k)).
Definition ohas_client (c : nat) (s : osrv) : bool :=
  match alookup Nat.eqb c (ents s) with Some _ => true | None => false end.

(* check: passed?, and for Unsubscribe the inner map it will keep using *)
Definition ocheck (s : osrv) (o : call) : bool * option nat :=
  match o with
  | CSub c q => (negb (omem (c, q) s), None)
  | CUnsub c q => (omem (c, q) s, alookup Nat.eqb c (ents s))
  | CUnsubAll c => (ohas_client c s, None)
  end.

Definition opost (o : call) (cap : option nat) (s : osrv) : osrv :=
  match o with
  | CSub c q =>
    match alookup Nat.eqb c (ents s) with
    | Some id =>
      let qs := match alookup Nat.eqb id (objs s) with Some qs => qs | None => [] end in
      {| ents := ents s; objs := aset Nat.eqb id (if memn q qs then qs else qs ++ [q]) (objs s);
         nextid := nextid s |}
    | None =>
      {| ents := aset Nat.eqb c (nextid s) (ents s); objs := aset Nat.eqb (nextid s) [q] (objs s);
         nextid := S (nextid s) |}
    end
  | CUnsub c q =>
    match cap with
    | Some id =>                    (* delete(clientSubscriptions, q) on the map read at check time *)
      let qs := deln q (match alookup Nat.eqb id (objs s) with Some qs => qs | None => [] end) in
      {| ents := match qs with [] => adel Nat.eqb c (ents s) | _ => ents s end;
         objs := aset Nat.eqb id qs (objs s); nextid := nextid s |}
    | None => s
    end
  | CUnsubAll c => {| ents := adel Nat.eqb c (ents s); objs := objs s; nextid := nextid s |}
  end.

Record ost := {
  o_srv : osrv; o_tab : list key;
  o_waiting : list (call * option nat); o_posting : list (call * option nat) }.
Definition o_init : ost := {| o_srv := oinit; o_tab := []; o_waiting := []; o_posting := [] |}.

(* the original state.add overwrites: the table as a set is the same *)
Definition ostep_f (s : ost) (x : pstep) : ost :=
  match x with
  | PCheck o =>
    let '(ok, cap) := ocheck (o_srv s) o in
    if ok then {| o_srv := o_srv s; o_tab := o_tab s; o_waiting := o_waiting s ++ [(o, cap)];
                  o_posting := o_posting s |}
    else s
  | PEnq i =>
    match nth_error (o_waiting s) i with
    | Some oc => {| o_srv := o_srv s; o_tab := loop_tab (fst oc) (o_tab s);
                    o_waiting := remove_nth i (o_waiting s); o_posting := o_posting s ++ [oc] |}
    | None => s
    end
  | PPost =>
    match o_posting s with
    | oc :: r => {| o_srv := opost (fst oc) (snd oc) (o_srv s); o_tab := o_tab s;
                    o_waiting := o_waiting s; o_posting := r |}
    | [] => s
    end
  | PPostAny i =>
    match nth_error (o_posting s) i with
    | Some oc => {| o_srv := opost (fst oc) (snd oc) (o_srv s); o_tab := o_tab s;
                    o_waiting := o_waiting s; o_posting := remove_nth i (o_posting s) |}
    | None => s
    end
  | PDrop k => s
  end.
Definition orun (xs : list pstep) : ost := fold_left ostep_f xs o_init.
