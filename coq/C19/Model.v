(* C19 — model of libs/pubsub/pubsub.go (Server.Subscribe/Unsubscribe/UnsubscribeAll/
   PublishWithEvents and the server loop's state.add/remove/removeClient/send) and of
   libs/pubsub/subscription.go.  NO proofs.  The query matcher is in Query.v.

   Conventions
   * a client id and a query string (q.String(), the key of both tables) are naturals; the
     query behind a query string is [Q qid] (the harness numbers the distinct query strings of a
     history; state.queries[qStr].q is the first Query object subscribed under that string and
     all of them print the same, so it is a function of the string).
   * Go maps are association lists; every `for … range map` goes through [ord], an arbitrary
     reordering (the theorems quantify over all [ord] that permute their argument; the executable
     check uses the identity and compares per-subscriber observables only).
   * state.subscriptions : qStr -> clientID -> *Subscription.  The pointer stored for
     (qStr, clientID) is always the most recently created Subscription of that pair (a new one is
     created only by a successful Subscribe, which stores it), so the table holds the client ids
     only and [heap] maps the pair to its current Subscription object.
   * Server.subscriptions (clientID -> qStr -> {}) is the flat set [outer] of pairs; inner maps
     are deleted when empty, so "client present" = "some pair with that client".
   * a Subscription is its out channel (capacity, queued messages), the messages the reader has
     taken so far, and err (closed [canceled] channel <-> err <> None).  An unbuffered
     subscription (capacity 0) hands the message to its reader synchronously: as far as the
     server loop is concerned the message is taken at once (a reader that never reads blocks the
     loop: liveness, out of scope).
   * the server loop processes one command at a time; the harness waits for each command to be
     processed before issuing the next, so a history is a list of operations.
   * THE MODEL IS OF THE REPAIRED send (finding F10): a query whose Matches returns an error is
     treated as "does not match" and the loop continues with the next query.  The original
     returned from send at that point. *)
From Coq Require Import String List ZArith Bool Arith.
From TM Require Import C19.Query.
Import ListNotations.

(* ------------------------------------------------------------------ association lists *)

Section Assoc.
  Context {K V : Type}.
  Variable eqb : K -> K -> bool.

  Fixpoint alookup (k : K) (l : list (K * V)) : option V :=
    match l with
    | [] => None
    | (k', v) :: r => if eqb k k' then Some v else alookup k r
    end.

  (* m[k] = v : replace in place, or append *)
  Fixpoint aset (k : K) (v : V) (l : list (K * V)) : list (K * V) :=
    match l with
    | [] => [(k, v)]
    | (k', v') :: r => if eqb k k' then (k, v) :: r else (k', v') :: aset k v r
    end.

  (* delete(m, k) *)
  Fixpoint adel (k : K) (l : list (K * V)) : list (K * V) :=
    match l with
    | [] => []
    | (k', v') :: r => if eqb k k' then adel k r else (k', v') :: adel k r
    end.
End Assoc.

Definition key := (nat * nat)%type.                (* (client id, query id) *)
Definition key_eqb (a b : key) : bool := Nat.eqb (fst a) (fst b) && Nat.eqb (snd a) (snd b).

Definition memn (x : nat) (l : list nat) : bool := existsb (Nat.eqb x) l.
Definition deln (x : nat) (l : list nat) : list nat := filter (fun y => negb (Nat.eqb x y)) l.

(* ------------------------------------------------------------------ subscriptions *)

Inductive reason := Unsubscribed | OutOfCapacity.

Record chan := {
  ch_cap : nat;                 (* cap(out); 0 = unbuffered *)
  ch_buf : list nat;            (* messages queued in out, oldest first *)
  ch_got : list nat;            (* messages the reader has received from out, oldest first *)
  ch_err : option reason        (* Err(); Some _ <-> Cancelled() is closed *)
}.

Definition new_chan (cap : nat) : chan :=
  {| ch_cap := cap; ch_buf := []; ch_got := []; ch_err := None |}.

Definition chan_cancel (r : reason) (c : chan) : chan :=
  {| ch_cap := ch_cap c; ch_buf := ch_buf c; ch_got := ch_got c; ch_err := Some r |}.

(* the reader takes up to n queued messages *)
Definition chan_read (n : nat) (c : chan) : chan :=
  {| ch_cap := ch_cap c; ch_buf := skipn n (ch_buf c); ch_got := ch_got c ++ firstn n (ch_buf c);
     ch_err := ch_err c |}.

(* true when `select { case out <- m: default: }` takes the default branch *)
Definition chan_full (c : chan) : bool := Nat.leb (ch_cap c) (length (ch_buf c)).

(* out <- m *)
Definition chan_push (m : nat) (c : chan) : chan :=
  if Nat.eqb (ch_cap c) 0
  then {| ch_cap := 0; ch_buf := ch_buf c; ch_got := ch_got c ++ [m]; ch_err := ch_err c |}
  else {| ch_cap := ch_cap c; ch_buf := ch_buf c ++ [m]; ch_got := ch_got c; ch_err := ch_err c |}.

(* ------------------------------------------------------------------ server state *)

Record st := {
  subs : list (nat * list nat);      (* state.subscriptions : qStr -> clients *)
  queries : list (nat * Z);          (* state.queries : qStr -> refCount *)
  outer : list key;                  (* Server.subscriptions *)
  heap : list (key * chan);          (* current Subscription object of each (client, qStr) *)
  panicked : bool                    (* nil dereference of state.queries[qStr] *)
}.

Definition init : st :=
  {| subs := []; queries := []; outer := []; heap := []; panicked := false |}.

Definition set_subs (s : st) x := {| subs := x; queries := queries s; outer := outer s; heap := heap s; panicked := panicked s |}.
Definition set_queries (s : st) x := {| subs := subs s; queries := x; outer := outer s; heap := heap s; panicked := panicked s |}.
Definition set_outer (s : st) x := {| subs := subs s; queries := queries s; outer := x; heap := heap s; panicked := panicked s |}.
Definition set_heap (s : st) x := {| subs := subs s; queries := queries s; outer := outer s; heap := x; panicked := panicked s |}.
Definition set_panicked (s : st) := {| subs := subs s; queries := queries s; outer := outer s; heap := heap s; panicked := true |}.

Definition heap_upd (f : chan -> chan) (k : key) (h : list (key * chan)) : list (key * chan) :=
  match alookup key_eqb k h with
  | Some c => aset key_eqb k (f c) h
  | None => h
  end.

(* state.add *)
Definition add (s : st) (c q cap : nat) : st :=
  let cl := match alookup Nat.eqb q (subs s) with Some cl => cl | None => [] end in
  let cl' := if memn c cl then cl else cl ++ [c] in
  let s1 := set_subs s (aset Nat.eqb q cl' (subs s)) in
  let s2 := set_heap s1 (aset key_eqb (c, q) (new_chan cap) (heap s1)) in
  let n := match alookup Nat.eqb q (queries s2) with Some n => n | None => 0%Z end in
  set_queries s2 (aset Nat.eqb q (n + 1)%Z (queries s2)).

(* state.remove *)
Definition remove (s : st) (c q : nat) (r : reason) : st :=
  match alookup Nat.eqb q (subs s) with
  | None => s
  | Some cl =>
    if memn c cl then
      let s1 := set_heap s (heap_upd (chan_cancel r) (c, q) (heap s)) in       (* subscription.cancel *)
      let cl' := deln c cl in
      let s2 := set_subs s1 (match cl' with
                             | [] => adel Nat.eqb q (subs s1)
                             | _ => aset Nat.eqb q cl' (subs s1)
                             end) in
      match alookup Nat.eqb q (queries s2) with
      | None => set_panicked s2
      | Some n =>
        let n' := (n - 1)%Z in
        set_queries s2 (if (n' =? 0)%Z then adel Nat.eqb q (queries s2)
                        else aset Nat.eqb q n' (queries s2))
      end
    else s
  end.

Section Loop.
  Variable Q : nat -> query.                              (* query string -> query *)
  Variable ord : forall A : Type, nat -> list A -> list A. (* map iteration order *)

  (* state.removeClient *)
  Definition remove_client (seed : nat) (s : st) (c : nat) (r : reason) : st :=
    fold_left (fun s' (e : nat * list nat) =>
                 if memn c (snd e) then remove s' c (fst e) r else s')
              (ord _ seed (subs s)) s.

  (* body of the inner loop of send for one client of a matching query *)
  Definition deliver (m q : nat) (s : st) (c : nat) : st :=
    match alookup key_eqb (c, q) (heap s) with
    | None => s
    | Some ch =>
      if Nat.eqb (ch_cap ch) 0 then
        set_heap s (aset key_eqb (c, q) (chan_push m ch) (heap s))
      else if chan_full ch then remove s c q OutOfCapacity
      else set_heap s (aset key_eqb (c, q) (chan_push m ch) (heap s))
    end.

  (* body of the outer loop of send for one query string *)
  Definition send_query (seed m : nat) (ev : events) (s : st) (e : nat * list nat) : st :=
    if panicked s then s else
    match alookup Nat.eqb (fst e) (queries s) with
    | None => set_panicked s
    | Some _ =>
      match matches (Q (fst e)) ev with
      | MTrue => fold_left (deliver m (fst e)) (ord _ (S seed + fst e) (snd e)) s
      | MFalse => s
      | MErr => s            (* repaired (F10): skip this query, continue with the others *)
      end
    end.

  (* state.send *)
  Definition send (seed m : nat) (ev : events) (s : st) : st :=
    fold_left (send_query seed m ev) (ord _ seed (subs s)) s.

  (* ---------------------------------------------------------------- Server API, one command at a time *)

  Inductive op :=
  | Subscribe (c q cap : nat)          (* Subscribe (cap > 0) / SubscribeUnbuffered (cap = 0) *)
  | Unsubscribe (c q : nat)
  | UnsubscribeAll (c seed : nat)
  | Publish (m : nat) (ev : events) (seed : nat)   (* PublishWithEvents; seed picks the map orders *)
  | Read (c q n : nat).                (* the reader of (c, q)'s current subscription takes <= n messages *)

  Inductive res := ROk | RAlreadySubscribed | RNotFound.

  Definition has_client (c : nat) (o : list key) : bool := existsb (fun k => Nat.eqb (fst k) c) o.
  Definition has_key (k : key) (o : list key) : bool := existsb (key_eqb k) o.

  Definition step (s : st) (o : op) : st * res :=
    match o with
    | Subscribe c q cap =>
      if has_key (c, q) (outer s) then (s, RAlreadySubscribed)
      else let s1 := add s c q cap in (set_outer s1 (outer s1 ++ [(c, q)]), ROk)
    | Unsubscribe c q =>
      if has_key (c, q) (outer s) then
        let s1 := remove s c q Unsubscribed in
        (set_outer s1 (filter (fun k => negb (key_eqb (c, q) k)) (outer s1)), ROk)
      else (s, RNotFound)
    | UnsubscribeAll c useed =>
      if has_client c (outer s) then
        let s1 := remove_client useed s c Unsubscribed in
        (set_outer s1 (filter (fun k => negb (Nat.eqb (fst k) c)) (outer s1)), ROk)
      else (s, RNotFound)
    | Publish m ev seed => (send seed m ev s, ROk)
    | Read c q n => (set_heap s (heap_upd (chan_read n) (c, q) (heap s)), ROk)
    end.

  Definition run (ops : list op) : st := fold_left (fun s o => fst (step s o)) ops init.
End Loop.

(* ------------------------------------------------------------------ the specification:
   one subscriber on its own.  What the pair k = (client, query) observes is a function of
   the operations that name it (its own Subscribe/Unsubscribe/UnsubscribeAll/Read) and of the
   publications; no other client's operation occurs in it. *)

Record solo := {
  so_outer : bool;              (* (client, query) registered with the Server *)
  so_live : bool;               (* present in the loop's table *)
  so_chan : option chan         (* its current Subscription *)
}.

Definition solo_init : solo := {| so_outer := false; so_live := false; so_chan := None |}.

Section Solo.
  Variable Q : nat -> query.

  Definition solo_step (k : key) (s : solo) (o : op) : solo :=
    match o with
    | Subscribe c q cap =>
      if key_eqb (c, q) k then
        if so_outer s then s
        else {| so_outer := true; so_live := true; so_chan := Some (new_chan cap) |}
      else s
    | Unsubscribe c q =>
      if key_eqb (c, q) k then
        if so_outer s then
          {| so_outer := false; so_live := false;
             so_chan := if so_live s then option_map (chan_cancel Unsubscribed) (so_chan s)
                        else so_chan s |}
        else s
      else s
    | UnsubscribeAll c useed =>
      if Nat.eqb c (fst k) then
        if so_outer s then
          {| so_outer := false; so_live := false;
             so_chan := if so_live s then option_map (chan_cancel Unsubscribed) (so_chan s)
                        else so_chan s |}
        else s
      else s
    | Publish m ev _ =>
      if so_live s then
        match matches (Q (snd k)) ev, so_chan s with
        | MTrue, Some ch =>
          if negb (Nat.eqb (ch_cap ch) 0) && chan_full ch
          then {| so_outer := so_outer s; so_live := false;
                  so_chan := Some (chan_cancel OutOfCapacity ch) |}
          else {| so_outer := so_outer s; so_live := true; so_chan := Some (chan_push m ch) |}
        | _, _ => s
        end
      else s
    | Read c q n =>
      if key_eqb (c, q) k then
        {| so_outer := so_outer s; so_live := so_live s;
           so_chan := option_map (chan_read n) (so_chan s) |}
      else s
    end.

  Definition solo_run (k : key) (ops : list op) : solo := fold_left (solo_step k) ops solo_init.
End Solo.

(* what the pair k observes in a state of the full server *)
Definition in_table (k : key) (s : st) : bool :=
  match alookup Nat.eqb (snd k) (subs s) with
  | Some cl => memn (fst k) cl
  | None => false
  end.

Definition proj (k : key) (s : st) : solo :=
  {| so_outer := has_key k (outer s); so_live := in_table k s;
     so_chan := alookup key_eqb k (heap s) |}.

(* everything ever pushed into a subscription's channel, in order *)
Definition pushed (c : chan) : list nat := ch_got c ++ ch_buf c.

(* ------------------------------------------------------------------ the ORIGINAL send (before
   the repair of F10), kept only to exhibit the refutation of isolation on it: the loop
   returns at the first query whose Matches fails. *)
Section Original.
  Variable Q : nat -> query.
  Variable ord : forall A : Type, nat -> list A -> list A.

  Definition send_query_original (seed m : nat) (ev : events) (acc : st * bool) (e : nat * list nat)
    : st * bool :=
    let '(s, aborted) := acc in
    if aborted then acc else
    match matches (Q (fst e)) ev with
    | MErr => (s, true)                                   (* return fmt.Errorf(...) *)
    | _ => (send_query Q ord seed m ev s e, false)
    end.

  Definition send_original (seed m : nat) (ev : events) (s : st) : st :=
    fst (fold_left (send_query_original seed m ev) (ord _ seed (subs s)) (s, false)).
End Original.
