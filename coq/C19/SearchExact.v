(* C19 (search half) — the exactness theorems of SearchProofs.v / SearchRangeProofs.v /
   BlockProofs.v with the semantic premise NumOK ("matcher's reading = strconv.ParseInt = the
   rendered integer") DISCHARGED by DecProofs.v:
   * for the values the indexers render themselves (tx.height, block.height) nothing remains but
     "heights are non-negative int64 values";
   * for the attribute values chosen by the application the premise becomes the decidable,
     purely syntactic test [canon] (non-empty, digits only, no leading zero except "0",
     <= MaxInt64), and numkey_iff / bnumkey_iff show that this is exactly what NumKey meant.
   Second half: what the transaction indexer does with ARBITRARY attribute values under integer
   conditions (no premise on the values at all), against what the matcher does. *)
From Coq Require Import String Ascii List ZArith Bool Lia Sorted.
From TM Require Import C19.Query C19.SearchModel C19.SearchProofs C19.DecProofs
     C19.BlockModel C19.BlockProofs C19.SearchRangeProofs.
Import ListNotations.
Open Scope Z_scope.

(* ------------------------------------------------------------------ transactions: the premises *)

(* heights are int64 values >= 0 (the Go type plus "no negative heights") *)
Definition HeightsOK (txs : list txres) : Prop :=
  forall t, In t txs -> 0 <= t_height t <= max_int64.

(* the application's indexed values under composite key k are canonical decimals *)
Definition CanonKey (txs : list txres) (k : string) : Prop :=
  forall t v, In t txs -> In (k, v) (indexed_attrs t) -> canon v = true.

Theorem numkey_iff : forall txs k, (forall t, In t txs -> TxDomain t) ->
  (NumKey txs k <-> CanonKey txs k /\ (k = TxHeightKey -> HeightsOK txs)).
Proof.
  intros txs k DOM. split.
  - intro NK. split.
    + intros t v T I. apply NumOK_canon, (NK t v T), In_vals, ext_in. auto.
    + intros -> t T. apply NumOK_dec_iff, (NK t _ T), In_vals, ext_in. auto.
  - intros [CK HK] t v T I. apply In_vals, ext_in in I as [I|[-> ->]].
    + apply NumOK_canon, (CK t v T I).
    + apply dec_NumOK, (HK eq_refl t T).
Qed.

Lemma numkey_of_canon : forall txs k, (forall t, In t txs -> TxDomain t) -> HeightsOK txs ->
  CanonKey txs k -> NumKey txs k.
Proof. intros txs k DOM HO CK. apply numkey_iff; auto. Qed.

(* under TxDomain nothing is demanded of the key tx.height *)
Lemma canonkey_height : forall txs, (forall t, In t txs -> TxDomain t) -> CanonKey txs TxHeightKey.
Proof. intros txs DOM t v T I. destruct (DOM t T _ _ I) as [_ [_ [X _]]]. contradiction. Qed.

(* wf_cond with the syntactic premise *)
Definition wf_cond_c (txs : list txres) (c : cond) : Prop :=
  no_slash (c_key c) = true /\ c_key c <> TxHashKey /\
  match c_op c, c_arg c with
  | OpEq, OStr s => no_slash s = true /\ c_key c <> TxHeightKey
  | OpEq, OInt z => CanonKey txs (c_key c)
  | OpContains, OStr s => True
  | OpExists, ONone => has_char "."%char (c_key c) = true
  | _, _ => False
  end.

Definition wf_cond_rc (txs : list txres) (c : cond) : Prop :=
  if is_range c
  then no_slash (c_key c) = true /\ c_key c <> TxHashKey /\
       exists z, c_arg c = OInt z /\ CanonKey txs (c_key c)
  else wf_cond_c txs c.

Lemma wf_c_wf : forall txs c, (forall t, In t txs -> TxDomain t) -> HeightsOK txs ->
  wf_cond_c txs c -> wf_cond txs c.
Proof.
  intros txs [k op arg] DOM HO [A [B W]]. split; [exact A|]. split; [exact B|].
  cbn [c_op c_arg c_key] in *. destruct op; try contradiction; destruct arg; try contradiction; auto.
  apply numkey_of_canon; assumption.
Qed.

Lemma wf_rc_wf : forall txs c, (forall t, In t txs -> TxDomain t) -> HeightsOK txs ->
  wf_cond_rc txs c -> wf_cond_r txs c.
Proof.
  intros txs c DOM HO W. unfold wf_cond_rc, wf_cond_r in *. destruct (is_range c).
  - destruct W as [A [B [z [E CK]]]]. split; [exact A|]. split; [exact B|]. exists z.
    split; [exact E|]. apply numkey_of_canon; assumption.
  - apply wf_c_wf; assumption.
Qed.

(* decidable forms of the premises (used by the examples; they also show that nothing semantic
   is left) *)
Definition heights_ok_b (txs : list txres) : bool :=
  forallb (fun t => (0 <=? t_height t) && (t_height t <=? max_int64)) txs.
Definition canon_key_b (txs : list txres) (k : string) : bool :=
  forallb (fun t => forallb (fun tv => negb (String.eqb (fst tv) k) || canon (snd tv))
                            (indexed_attrs t)) txs.

Lemma heights_ok_b_spec : forall txs, heights_ok_b txs = true -> HeightsOK txs.
Proof.
  intros txs H t T. unfold heights_ok_b in H. rewrite forallb_forall in H.
  specialize (H t T). apply andb_true_iff in H as [A B]. lia.
Qed.

Lemma canon_key_b_spec : forall txs k, canon_key_b txs k = true -> CanonKey txs k.
Proof.
  intros txs k H t v T I. unfold canon_key_b in H. rewrite forallb_forall in H.
  specialize (H t T). rewrite forallb_forall in H. specialize (H (k, v) I).
  cbn [fst snd] in H. rewrite String.eqb_refl in H. exact H.
Qed.

(* ------------------------------------------------------------------ transactions: the theorems *)

(* C19_search_exact: C19_search_exact_partial without the semantic premise.  Premises: Distinct
   (distinct transactions at distinct positions), TxDomain (no '/' in indexed tags and values,
   reserved tags unused), HeightsOK, wf_cond_c (no '/' in query keys and string operands, no
   tx.hash; "= integer" only on keys whose application-chosen values pass [canon]; EXISTS on
   dotted keys).  All of them are decidable properties of the history and the query. *)
Theorem C19_search_exact : forall (h : list iop) (q : query),
  Distinct (history_txs h) ->
  (forall t, In t (history_txs h) -> TxDomain t) ->
  HeightsOK (history_txs h) ->
  q <> [] ->
  (forall c, In c q -> wf_cond_c (history_txs h) c) ->
  exists ids, search (run_history h) q = SOk ids /\
    forall id, In id ids <->
      exists t, In t (history_txs h) /\ t_hash t = id /\ matches q (tx_events t) = MTrue.
Proof.
  intros h q D DOM HO NE WF. apply C19_search_exact_partial; auto.
  intros c I. apply wf_c_wf; auto.
Qed.

(* C19_tx_search_exact_ranges: the same with integer range conditions *)
Theorem C19_tx_search_exact_ranges : forall (h : list iop) (q : query),
  Distinct (history_txs h) ->
  (forall t, In t (history_txs h) -> TxDomain t) ->
  HeightsOK (history_txs h) ->
  q <> [] ->
  (forall c, In c q -> wf_cond_rc (history_txs h) c) ->
  TxRangeShape (history_txs h) q ->
  exists ids, search (run_history h) q = SOk ids /\
    forall id, In id ids <->
      exists t, In t (history_txs h) /\ t_hash t = id /\ matches q (tx_events t) = MTrue.
Proof.
  intros h q D DOM HO NE WF SH. apply C19_tx_search_exact_ranges_partial; auto.
  intros c I. apply wf_rc_wf; auto.
Qed.

(* a query over tx.height alone needs no premise on attribute values at all *)
Corollary C19_tx_search_height_exact : forall (h : list iop) (op : opr) (H : Z),
  Distinct (history_txs h) ->
  (forall t, In t (history_txs h) -> TxDomain t) ->
  HeightsOK (history_txs h) ->
  op <> OpContains -> op <> OpExists ->
  let q := [{| c_key := TxHeightKey; c_op := op; c_arg := OInt H |}] in
  exists ids, search (run_history h) q = SOk ids /\
    forall id, In id ids <->
      exists t, In t (history_txs h) /\ t_hash t = id /\ cmp_ok op (t_height t) H = true.
Proof.
  intros h op H D DOM HO N1 N2 q.
  destruct (C19_tx_search_exact_ranges h q D DOM HO) as [ids [S E]].
  - discriminate.
  - intros c [<-|[]]. unfold wf_cond_rc, wf_cond_c, is_range. cbn [c_key c_op c_arg].
    destruct op; cbn [is_range_op]; try contradiction;
      repeat split; try reflexivity; try discriminate;
      try (eexists; split; [reflexivity|]); apply canonkey_height; exact DOM.
  - intros k I. left. unfold ck, q. cbn [filter]. unfold range_keys, q in I. cbn [filter] in I.
    destruct (is_range {| c_key := TxHeightKey; c_op := op; c_arg := OInt H |}) eqn:R;
      cbn [map sdedup filter] in I; [|destruct I].
    destruct I as [<-|[]]. unfold on_key. rewrite R. cbn [c_key]. rewrite String.eqb_refl.
    eexists. reflexivity.
  - exists ids. split; [exact S|]. intro id. rewrite E.
    assert (M : forall t, In t (history_txs h) ->
              (matches q (tx_events t) = MTrue <-> cmp_ok op (t_height t) H = true)).
    { intros t T. rewrite matches_nonnil by apply tx_events_nonnil. rewrite match_conds_all.
      set (c0 := {| c_key := TxHeightKey; c_op := op; c_arg := OInt H |}).
      transitivity (match_cond c0 (tx_events t) = MTrue).
      { unfold q. fold c0. split; [intro A; apply A; left; reflexivity | intros A c [<-|[]]; exact A]. }
      unfold c0.
      rewrite match_cond_vals by (cbn [c_op c_key]; first [exact N2 | discriminate]).
      cbn [c_key c_op c_arg].
      assert (NK : forall v, In v (tvals TxHeightKey t) -> NumOK v).
      { intros v I. apply (numkey_of_canon (history_txs h) TxHeightKey DOM HO
                             (canonkey_height _ DOM) t v T I). }
      rewrite (mv_int _ op H NK). split.
      - intros [z [Z1 Z2]]. apply In_vals, ext_in in Z1 as [Z1|[_ Z1]].
        + destruct (DOM t T _ _ Z1) as [_ [_ [X _]]]. contradiction.
        + apply dec_inj in Z1. subst z. exact Z2.
      - intro C. exists (t_height t). split; [|exact C]. apply In_vals, ext_in. auto. }
    split; intros [t [T1 [T2 T3]]]; exists t; (split; [exact T1|]); (split; [exact T2|]);
      apply (M t T1); exact T3.
Qed.

(* ------------------------------------------------------------------ block indexer *)

Definition BHeightsOK (hist : list block) : Prop :=
  forall b, In b hist -> index_ok b = true -> 0 <= b_height b <= max_int64.

Definition BCanonKey (hist : list block) (k : string) : Prop :=
  forall b v, In b hist -> index_ok b = true ->
    In (k, v) (indexed_of (b_begin b)) \/ In (k, v) (indexed_of (b_end b)) -> canon v = true.

Theorem bnumkey_iff : forall hist k,
  BNumKey hist k <-> BCanonKey hist k /\ (k = BlockHeightKey -> BHeightsOK hist).
Proof.
  intros hist k. split.
  - intro NK. split.
    + intros b v B O I. apply NumOK_canon, (NK b v B O), In_vals, blk_attrs_in. tauto.
    + intros -> b B O. apply NumOK_dec_iff, (NK b _ B O), In_vals, blk_attrs_in. auto.
  - intros [CK HK] b v B O I. apply In_vals, blk_attrs_in in I as [I|[I|[-> ->]]].
    + apply NumOK_canon, (CK b v B O). auto.
    + apply NumOK_canon, (CK b v B O). auto.
    + apply dec_NumOK, (HK eq_refl b B O).
Qed.

(* an accepted block has no application attribute under block.height *)
Lemma bcanonkey_height : forall hist, BCanonKey hist BlockHeightKey.
Proof. intros hist b v B O I. exfalso. exact (ok_not_reserved b _ v O I eq_refl). Qed.

Definition bwf_cond_c (hist : list block) (c : cond) : Prop :=
  match c_op c, c_arg c with
  | OpEq, OStr _ => c_key c <> BlockHeightKey
  | OpContains, OStr _ => c_key c <> BlockHeightKey
  | OpExists, _ => has_char "."%char (c_key c) = true
  | (OpEq | OpLe | OpGe | OpLt | OpGt), OInt _ => BCanonKey hist (c_key c)
  | _, _ => False
  end.

Lemma bwf_c_wf : forall hist c, BHeightsOK hist -> bwf_cond_c hist c -> bwf_cond hist c.
Proof.
  intros hist [k op arg] HO W. unfold bwf_cond_c, bwf_cond in *. cbn [c_op c_arg c_key] in *.
  destruct op; destruct arg; try exact W; apply bnumkey_iff; auto.
Qed.

(* C19_block_search_exact: C19_block_search_exact_partial without the semantic premise.
   Premises: BConsistent (a height is indexed once or re-indexed with the same events),
   BHeightsOK, bwf_cond_c (string conditions not on block.height; integer conditions on keys
   whose application-chosen values pass [canon]; EXISTS on dotted keys), RangeShape. *)
Theorem C19_block_search_exact : forall (hist : list block) (q : query),
  BConsistent hist ->
  BHeightsOK hist ->
  q <> [] ->
  (forall c, In c q -> bwf_cond_c hist c) ->
  RangeShape hist q ->
  exists hs, bsearch (brun hist) q = BOk hs /\ StronglySorted Z.lt hs /\
    forall h, In h hs <->
      exists b, In b hist /\ index_ok b = true /\ b_height b = h /\
                matches q (blk_events b) = MTrue.
Proof.
  intros hist q CONS HO NE WF SH. apply C19_block_search_exact_partial; auto.
  intros c I. apply bwf_c_wf; auto.
Qed.

Definition bheights_ok_b (hist : list block) : bool :=
  forallb (fun b => negb (index_ok b) || ((0 <=? b_height b) && (b_height b <=? max_int64))) hist.
Definition bcanon_key_b (hist : list block) (k : string) : bool :=
  forallb (fun b => negb (index_ok b) ||
             forallb (fun tv => negb (String.eqb (fst tv) k) || canon (snd tv))
                     (indexed_of (b_begin b) ++ indexed_of (b_end b))) hist.

Lemma bheights_ok_b_spec : forall hist, bheights_ok_b hist = true -> BHeightsOK hist.
Proof.
  intros hist H b B O. unfold bheights_ok_b in H. rewrite forallb_forall in H.
  specialize (H b B). rewrite O in H. cbn [negb orb] in H. apply andb_true_iff in H as [X Y]. lia.
Qed.

Lemma bcanon_key_b_spec : forall hist k, bcanon_key_b hist k = true -> BCanonKey hist k.
Proof.
  intros hist k H b v B O I. unfold bcanon_key_b in H. rewrite forallb_forall in H.
  specialize (H b B). rewrite O in H. cbn [negb orb] in H. rewrite forallb_forall in H.
  specialize (H (k, v)). cbn [fst snd] in H. rewrite String.eqb_refl in H. apply H.
  apply in_app_iff. exact I.
Qed.

(* ------------------------------------------------------------------ non-vacuity *)

Example C19_search_exact_nonvacuous :
  Distinct (history_txs nv_hist) /\
  (forall t, In t (history_txs nv_hist) -> TxDomain t) /\
  HeightsOK (history_txs nv_hist) /\
  nv_q <> [] /\
  (forall c, In c nv_q -> wf_cond_c (history_txs nv_hist) c) /\
  search (run_history nv_hist) nv_q = SOk ["0"%string] /\
  sat nv_q nv_t0 = true /\ sat nv_q nv_t1 = false.
Proof.
  destruct SearchProofs.C19_search_exact_nonvacuous as [D [DOM _]].
  split; [exact D|]. split; [exact DOM|].
  split; [apply heights_ok_b_spec; reflexivity|]. split; [discriminate|].
  split; [|vm_compute; auto].
  intros c [<-|[<-|[<-|[<-|[<-|[]]]]]]; unfold wf_cond_c; cbn [c_key c_op c_arg];
    repeat split; try discriminate; apply canon_key_b_spec; reflexivity.
Qed.

Example C19_tx_search_exact_ranges_nonvacuous :
  Distinct (history_txs nv_hist) /\
  (forall t, In t (history_txs nv_hist) -> TxDomain t) /\
  HeightsOK (history_txs nv_hist) /\
  nvr_q <> [] /\
  (forall c, In c nvr_q -> wf_cond_rc (history_txs nv_hist) c) /\
  TxRangeShape (history_txs nv_hist) nvr_q /\
  search (run_history nv_hist) nvr_q = SOk ["0"%string] /\
  sat nvr_q nv_t0 = true /\ sat nvr_q nv_t1 = false.
Proof.
  destruct SearchRangeProofs.C19_tx_search_exact_ranges_nonvacuous
    as [D [DOM [_ [_ [SH [S [S0 [S1 _]]]]]]]].
  split; [exact D|]. split; [exact DOM|].
  split; [apply heights_ok_b_spec; reflexivity|]. split; [discriminate|].
  split; [|auto].
  intros c I. cbn [nvr_q In] in I.
  repeat (destruct I as [<-|I];
    [ unfold wf_cond_rc, wf_cond_c, is_range; cbn [c_key c_op c_arg is_range_op];
      first [ split; [reflexivity|]; split; [discriminate|]; eexists; split; [reflexivity|];
              apply canon_key_b_spec; reflexivity
            | repeat split; try discriminate; try reflexivity;
              try (apply canon_key_b_spec; reflexivity) ] |]).
  destruct I.
Qed.

Example C19_block_search_exact_nonvacuous :
  BConsistent bnv_hist /\ BHeightsOK bnv_hist /\ bnv_q <> [] /\
  (forall c, In c bnv_q -> bwf_cond_c bnv_hist c) /\ RangeShape bnv_hist bnv_q /\
  bsearch (brun bnv_hist) bnv_q = BOk [1] /\
  bsat bnv_q bnv_b1 = true /\ bsat bnv_q bnv_b2 = false /\ bsat bnv_q bnv_b4 = false.
Proof.
  destruct BlockProofs.C19_block_search_exact_nonvacuous as [C [_ [_ [SH [S [S1 [S2 [S4 _]]]]]]]].
  split; [exact C|]. split; [apply bheights_ok_b_spec; reflexivity|]. split; [discriminate|].
  split; [|auto 10].
  intros c [<-|[<-|[<-|[<-|[<-|[<-|[<-|[]]]]]]]]; unfold bwf_cond_c; cbn [c_key c_op c_arg];
    try discriminate; try reflexivity; apply bcanon_key_b_spec; reflexivity.
Qed.

Print Assumptions C19_search_exact.
Print Assumptions C19_tx_search_exact_ranges.
Print Assumptions C19_tx_search_height_exact.
Print Assumptions C19_block_search_exact.
Print Assumptions numkey_iff.
Print Assumptions bnumkey_iff.
