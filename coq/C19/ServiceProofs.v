(* C19 — proofs about the model of the indexer service (ServiceModel.v) composed with the
   indexer models. *)
From Coq Require Import String List ZArith Bool Lia Permutation Arith.
From TM Require Import C19.Query C19.SearchModel C19.SearchProofs C19.BlockModel C19.ServiceModel.
Import ListNotations.
Local Open Scope nat_scope.

(* ------------------------------------------------------------------ Batch.Add into the slots *)

Lemma set_nth_some : forall (A : Type) i (v : A) l, i < length l -> exists l', set_nth i v l = Some l'.
Proof.
  intros A i v l. revert i. induction l as [|x l IH]; intros i L; simpl in L; [lia|].
  destruct i; simpl; [eauto|]. destruct (IH i) as [l' E]; [lia|]. rewrite E. eauto.
Qed.

Lemma set_nth_spec : forall (A : Type) i (v : A) l l' d, set_nth i v l = Some l' ->
  length l' = length l /\ forall j, nth j l' d = if Nat.eqb j i then v else nth j l d.
Proof.
  intros A i v l. revert i. induction l as [|x l IH]; intros i l' d E; destruct i; simpl in E;
    try discriminate.
  - injection E as <-. split; [reflexivity|]. intros [|j]; reflexivity.
  - destruct (set_nth i v l) as [r|] eqn:S; [|discriminate]. injection E as <-.
    destruct (IH i r d S) as [L N]. split; [simpl; congruence|].
    intros [|j]; simpl; [reflexivity | apply N].
Qed.

Lemma those_map : forall (A : Type) (l : list (option A)) xs, those l = Some xs <-> l = map Some xs.
Proof.
  induction l as [|[x|] l IH]; intros xs; simpl.
  - split; [intro E; injection E as <-; reflexivity | destruct xs; [reflexivity | discriminate]].
  - destruct (those l) as [ys|] eqn:T.
    + split.
      * intro E. injection E as <-. simpl. f_equal. apply IH. reflexivity.
      * destruct xs as [|y ys']; [discriminate|]. simpl. intro E. injection E as -> E.
        apply IH in E. congruence.
    + split; [discriminate|]. destruct xs as [|y ys']; [discriminate|]. simpl. intro E.
      injection E as _ E. apply IH in E. discriminate.
  - split; [discriminate | destruct xs; discriminate].
Qed.

Definition tidx (t : txres) : nat := Z.to_nat (t_index t).

(* batch.Ops after Batch.Add of the given Tx events *)
Fixpoint fill (ops : list (option txres)) (txs : list txres) : option (list (option txres)) :=
  match txs with
  | [] => Some ops
  | t :: r => match set_nth (tidx t) (Some t) ops with Some ops' => fill ops' r | None => None end
  end.

(* slots hold exactly the transactions added so far, each at its index *)
Definition Filled (n : nat) (ops : list (option txres)) (done : list txres) : Prop :=
  length ops = n /\
  (forall i t, nth i ops None = Some t -> In t done /\ tidx t = i) /\
  (forall t, In t done -> nth (tidx t) ops None = Some t).

Lemma fill_inv : forall n txs ops done,
  Filled n ops done -> NoDup (map tidx (done ++ txs)) -> (forall t, In t txs -> tidx t < n) ->
  exists ops', fill ops txs = Some ops' /\ Filled n ops' (done ++ txs).
Proof.
  intros n txs. induction txs as [|t r IH]; intros ops done F ND LT; simpl.
  - exists ops. rewrite app_nil_r. auto.
  - destruct F as [L [F1 F2]].
    destruct (set_nth_some _ (tidx t) (Some t) ops) as [ops1 E]; [rewrite L; apply LT; left; reflexivity|].
    rewrite E. destruct (set_nth_spec _ _ _ _ _ None E) as [L1 N1].
    assert (NI : forall t', In t' done -> tidx t' <> tidx t).
    { intros t' I X. rewrite map_app in ND. simpl in ND. apply NoDup_remove_2 in ND. apply ND.
      rewrite in_app_iff. left. rewrite <- X. apply in_map. exact I. }
    destruct (IH ops1 (done ++ [t])) as [ops' [E' F']].
    + split; [congruence|]. split.
      * intros i t' H. rewrite N1 in H. destruct (Nat.eqb_spec i (tidx t)) as [->|NE].
        -- injection H as <-. rewrite in_app_iff. simpl. auto.
        -- destruct (F1 i t' H) as [A B]. rewrite in_app_iff. auto.
      * intros t' I. rewrite N1. apply in_app_iff in I as [I|[<-|[]]].
        -- destruct (Nat.eqb_spec (tidx t') (tidx t)) as [X|_]; [exfalso; eapply NI; eauto | auto].
        -- rewrite Nat.eqb_refl. reflexivity.
    + rewrite <- app_assoc. exact ND.
    + intros; apply LT; right; assumption.
    + exists ops'. rewrite <- app_assoc in F'. auto.
Qed.

Lemma nth_repeat_none : forall n i, nth i (repeat (@None txres) n) None = None.
Proof. induction n; destruct i; simpl; auto. Qed.

(* a well-formed block publication: the Tx events carry the indices 0 .. NumTxs-1, each once *)
Definition wf_pblock (p : pblock) : Prop :=
  Permutation (map tidx (snd p)) (seq 0 (length (snd p))).

Lemma all_filled : forall (ops : list (option txres)) n, length ops = n ->
  (forall i, i < n -> exists t, nth i ops None = Some t) -> exists batch, ops = map Some batch.
Proof.
  induction ops as [|o r IH]; intros n L ALL; [exists []; reflexivity|].
  simpl in L. destruct n as [|n]; [discriminate|].
  destruct (ALL 0) as [t T]; [lia|]. simpl in T. subst o.
  destruct (IH n) as [b B]; [lia | intros i Li; apply (ALL (S i)); lia|].
  exists (t :: b). simpl. congruence.
Qed.

Lemma fill_perm : forall txs, Permutation (map tidx txs) (seq 0 (length txs)) ->
  exists ops' batch, fill (repeat None (length txs)) txs = Some ops' /\ those ops' = Some batch /\
                     Permutation batch txs.
Proof.
  intros txs P. set (n := length txs) in *.
  assert (ND : NoDup (map tidx txs)) by (eapply Permutation_NoDup; [apply Permutation_sym; exact P | apply seq_NoDup]).
  assert (LT : forall t, In t txs -> tidx t < n).
  { intros t I. assert (J : In (tidx t) (seq 0 n)) by (eapply Permutation_in; [exact P | apply in_map; exact I]).
    apply in_seq in J. lia. }
  destruct (fill_inv n txs (repeat None n) []) as [ops' [E [L [F1 F2]]]]; auto.
  { split; [apply repeat_length|]. split; [intros i t H; rewrite nth_repeat_none in H; discriminate | intros t []]. }
  simpl in *.
  (* every slot is filled *)
  assert (ALL : forall i, i < n -> exists t, nth i ops' None = Some t).
  { intros i Li. assert (J : In i (map tidx txs)).
    { eapply Permutation_in; [apply Permutation_sym; exact P | apply in_seq; lia]. }
    apply in_map_iff in J as [t [<- I]]. exists t. apply F2. exact I. }
  assert (TH : exists batch, ops' = map Some batch) by (apply (all_filled ops' n L ALL)).
  destruct TH as [batch ->]. exists (map Some batch), batch. split; auto. split; [apply those_map; reflexivity|].
  assert (NTH : forall i t, nth_error batch i = Some t -> In t txs /\ tidx t = i).
  { intros i t H. apply (F1 i t). rewrite (nth_indep _ None (Some t)).
    - rewrite map_nth. f_equal. apply nth_error_nth. exact H.
    - rewrite map_length. apply nth_error_Some. congruence. }
  apply NoDup_Permutation.
  - apply NoDup_nth_error. intros i j Li EQ.
    destruct (nth_error batch i) as [t|] eqn:Ti; [|apply nth_error_None in Ti; lia].
    symmetry in EQ. destruct (NTH i t Ti) as [_ A]. destruct (NTH j t EQ) as [_ B]. congruence.
  - eapply NoDup_map_inv. exact ND.
  - intro t. split.
    + intro I. apply In_nth_error in I as [i H]. apply (NTH i t H).
    + intro I. pose proof (F2 t I) as H.
      assert (Lt : tidx t < length batch) by (rewrite map_length in L; rewrite L; apply LT; exact I).
      rewrite (nth_indep _ None (Some t)) in H by (rewrite map_length; exact Lt).
      rewrite map_nth in H. injection H as H. rewrite <- H. apply nth_In. exact Lt.
Qed.

(* ------------------------------------------------------------------ one published block = one iteration *)

Definition with_cur (s : svc) c : svc :=
  {| sv_tx := sv_tx s; sv_blk := sv_blk s; sv_run := true; sv_blocked := false;
     sv_crashed := sv_crashed s; sv_cur := c |}.

Lemma finish_cur : forall term s c b ops,
  sv_blocked s = false -> svc_finish term (with_cur s c) b ops = svc_finish term s b ops.
Proof. intros term s c b ops B. unfold svc_finish, with_cur. simpl. rewrite B. reflexivity. Qed.

Lemma collect : forall term b txs s ops ops', txs <> [] ->
  fill ops txs = Some ops' -> sv_blocked s = false ->
  fold_left (svc_step term) (map EvTx txs) (with_cur s (Some (b, length txs, ops)))
  = svc_finish term s b ops'.
Proof.
  intros term b txs. induction txs as [|t r IH]; intros s ops ops' NE F B; [contradiction|].
  simpl in F. destruct (set_nth (tidx t) (Some t) ops) as [ops1|] eqn:SN; [|discriminate].
  simpl. unfold svc_step at 2. simpl. fold (tidx t). rewrite SN.
  destruct r as [|t2 r'].
  - simpl in *. injection F as <-. apply finish_cur. exact B.
  - change (length (t2 :: r')) with (S (length r')).
    change ({| sv_tx := sv_tx s; sv_blk := sv_blk s; sv_run := true; sv_blocked := false;
               sv_crashed := sv_crashed s; sv_cur := Some (b, S (length r'), ops1) |})
      with (with_cur s (Some (b, length (t2 :: r'), ops1))).
    apply IH; auto. discriminate.
Qed.

Definition Idle (s : svc) : Prop :=
  sv_run s = true /\ sv_blocked s = false /\ sv_crashed s = false /\ sv_cur s = None.

Lemma step_header : forall term s b n, Idle s ->
  svc_step term s (EvHeader b n) =
  match n with O => svc_finish term s b [] | _ => with_cur s (Some (b, n, repeat None n)) end.
Proof.
  intros term [tx blk run blocked crashed cur] b n [R [B [C CU]]]. simpl in *. subst.
  unfold svc_step. simpl. destruct n; reflexivity.
Qed.

(* with terminateOnError = false, a well-formed block publication is: index the block events
   (which may fail), then AddBatch of its transactions in index order *)
Lemma one_block : forall s p, Idle s -> wf_pblock p ->
  exists batch, Permutation batch (snd p) /\
    let s' := fold_left (svc_step false) (events_of p) s in
    Idle s' /\ sv_tx s' = add_batch (sv_tx s) batch /\ sv_blk s' = fst (bindex (sv_blk s) (fst p)).
Proof.
  intros s [b txs] I W. pose proof I as [R [B [C CU]]]. unfold wf_pblock in W. simpl in W.
  destruct (fill_perm txs W) as [ops' [batch [F [T P]]]].
  exists batch. split; [exact P|]. unfold events_of. simpl fst. simpl snd.
  assert (FIN : let s' := svc_finish false s b ops' in
            Idle s' /\ sv_tx s' = add_batch (sv_tx s) batch /\ sv_blk s' = fst (bindex (sv_blk s) b)).
  { unfold svc_finish. rewrite T. destruct (bindex (sv_blk s) b) as [bst ok].
    rewrite andb_false_r. simpl. unfold Idle. simpl. auto. }
  cbn [fold_left]. rewrite (step_header false s b (length txs) I).
  destruct txs as [|t r].
  - simpl in F. injection F as <-. simpl. exact FIN.
  - cbn [length]. change (S (length r)) with (length (t :: r)).
    rewrite (collect false b (t :: r) s _ ops'); auto. discriminate.
Qed.

Lemma service_gen : forall ps s, Idle s -> Forall wf_pblock ps ->
  exists batches, Forall2 (fun p b => Permutation b (snd p)) ps batches /\
    let s' := fold_left (svc_step false) (events_all ps) s in
    Idle s' /\ sv_tx s' = fold_left add_batch batches (sv_tx s) /\
    sv_blk s' = fold_left (fun st b => fst (bindex st b)) (map fst ps) (sv_blk s).
Proof.
  induction ps as [|p ps IH]; intros s I W.
  - exists []. split; [constructor|]. simpl. auto.
  - inversion W as [|? ? W1 W2]; subst.
    destruct (one_block s p I W1) as [batch [P [I1 [T1 B1]]]].
    destruct (IH _ I1 W2) as [batches [F [I2 [T2 B2]]]].
    exists (batch :: batches). split; [constructor; auto|].
    cbv zeta. change (events_all (p :: ps)) with (events_of p ++ events_all ps). rewrite fold_left_app.
    split; [exact I2|]. split.
    + rewrite T2, T1. reflexivity.
    + rewrite B2, B1. reflexivity.
Qed.

Definition all_txs (ps : list pblock) : list txres := flat_map snd ps.

Lemma batches_perm : forall ps batches,
  Forall2 (fun (p : pblock) b => Permutation b (snd p)) ps batches ->
  Permutation (history_txs (map OBatch batches)) (all_txs ps).
Proof.
  intros ps batches F. induction F as [|p b ps bs P F IH]; simpl; [constructor|].
  unfold history_txs, all_txs in *. simpl. apply Permutation_app; assumption.
Qed.

(* C19_service_indexes_every_tx: the indexer service with terminateOnError = false (the node's
   setting), after ANY history of well-formed block publications (header, then its NumTxs Tx
   events in any order, carrying the indices 0..NumTxs-1) of pairwise distinct transactions —
   whatever the block indexer says about the blocks' events (rejected blocks included): the
   service is back at the top of its loop; the transaction index holds every key once; a key
   belongs to a transaction exactly when it is one of that transaction's keys; Get(hash)
   returns exactly the published transaction with that hash (every published transaction is
   there, nothing else); and the block index is what BlockerIndexer.Index leaves after the
   headers in order (C19_block_indexed_once describes it: the blocks it accepted). *)
Theorem C19_service_indexes_every_tx : forall ps : list pblock,
  Forall wf_pblock ps ->
  Distinct (all_txs ps) ->
  let s := svc_run false (events_all ps) in
  sv_run s = true /\ sv_blocked s = false /\ sv_crashed s = false /\ sv_cur s = None /\
  NoDup (map fst (s_idx (sv_tx s))) /\ NoDup (map fst (s_prim (sv_tx s))) /\
  (forall k id, In (k, id) (s_idx (sv_tx s)) <->
     exists t, In t (all_txs ps) /\ id = t_hash t /\ In k (keys_of t)) /\
  (forall id t, get (sv_tx s) id = Some t <-> In t (all_txs ps) /\ t_hash t = id) /\
  sv_blk s = brun (map fst ps).
Proof.
  intros ps W D s.
  destruct (service_gen ps svc_init) as [batches [F [[R [B [C CU]]] [T BL]]]]; [repeat split | exact W|].
  fold (svc_run false (events_all ps)) in *. fold s in R, B, C, CU, T, BL.
  pose proof (batches_perm ps batches F) as P.
  set (h := map OBatch batches) in *.
  assert (TH : sv_tx s = run_history h).
  { rewrite T. unfold run_history, h. simpl sv_tx. clear. generalize empty_store.
    induction batches as [|b bs IH]; intro st; simpl; [reflexivity | apply IH]. }
  assert (DH : Distinct (history_txs h)).
  { destruct D as [D1 D2]. split.
    - eapply Permutation_NoDup; [apply Permutation_map, Permutation_sym; exact P | exact D1].
    - eapply Permutation_NoDup; [apply Permutation_map, Permutation_sym; exact P | exact D2]. }
  destruct (C19_indexed_once h DH) as [N1 [N2 [I1 I2]]]. rewrite <- TH in N1, N2, I1, I2.
  repeat split; auto.
  - intro H. apply I1 in H as [t [A Bq]]. exists t. split; auto. eapply Permutation_in; eauto.
  - intros [t [A Bq]]. apply I1. exists t. split; auto.
    eapply Permutation_in; [apply Permutation_sym; exact P | exact A].
  - apply I2 in H as [A _]. eapply Permutation_in; eauto.
  - apply I2 in H as [_ A]. exact A.
  - intros [A E]. apply I2. split; auto.
    eapply Permutation_in; [apply Permutation_sym; exact P | exact A].
Qed.

Print Assumptions C19_service_indexes_every_tx.

(* ------------------------------------------------------------------ concrete instances *)

Local Open Scope string_scope.
Local Open Scope Z_scope.

Definition sv_ev (typ k v : string) : event :=
  {| e_type := typ; e_attrs := [{| a_key := k; a_val := v; a_index := true |}] |}.
Definition sv_tx1 (h : string) (ht ix : Z) (evs : list event) : txres :=
  {| t_hash := h; t_height := ht; t_index := ix; t_code := 0; t_events := evs |}.

(* block 1: two transactions published in the order index 1, index 0; block 2 carries the
   reserved key block.height in its EndBlock events (the block indexer rejects it) and three
   transactions published in the order 2, 0, 1; block 3: no transaction *)
Definition svx_t0 := sv_tx1 "0" 1 0 [sv_ev "a" "x" "1"].
Definition svx_t1 := sv_tx1 "1" 1 1 [].
Definition svx_t2 := sv_tx1 "2" 2 0 [sv_ev "a" "x" "2"].
Definition svx_t3 := sv_tx1 "3" 2 1 [sv_ev "b" "y" "p"].
Definition svx_t4 := sv_tx1 "4" 2 2 [].
Definition svx_b2 : block := {| b_height := 2; b_begin := []; b_end := [sv_ev "block" "height" "1"] |}.
Definition svx_ps : list pblock :=
  [ ({| b_height := 1; b_begin := [sv_ev "a" "y" "p"]; b_end := [] |}, [svx_t1; svx_t0]);
    (svx_b2, [svx_t4; svx_t2; svx_t3]);
    ({| b_height := 3; b_begin := []; b_end := [] |}, []) ].

Example C19_service_indexes_every_tx_nonvacuous :
  Forall wf_pblock svx_ps /\ Distinct (all_txs svx_ps) /\
  index_ok svx_b2 = false /\
  let s := svc_run false (events_all svx_ps) in
  get (sv_tx s) "3" = Some svx_t3 /\ get (sv_tx s) "4" = Some svx_t4 /\
  search (sv_tx s) [{| c_key := "tx.height"; c_op := OpEq; c_arg := OInt 2 |}] = SOk ["4"; "3"; "2"] /\
  bhas (sv_blk s) 1 = true /\ bhas (sv_blk s) 2 = false /\ bhas (sv_blk s) 3 = true.
Proof.
  split.
  { repeat constructor; unfold wf_pblock; vm_compute;
      first [ apply perm_swap
            | apply (Permutation_cons_app [0%nat; 1%nat] [] 2%nat); apply Permutation_refl
            | constructor ]. }
  split; [split; vm_compute; repeat constructor; simpl; intuition discriminate|].
  vm_compute. auto 10.
Qed.

(* terminateOnError = true: the operator asked the service to stop at the first error; the
   transactions of the block whose events were rejected (already collected) and everything
   published afterwards are not indexed *)
Example C19_service_terminate_on_error_stops :
  let s := svc_run true (events_all svx_ps) in
  sv_run s = false /\ get (sv_tx s) "0" = Some svx_t0 /\ get (sv_tx s) "3" = None /\
  bhas (sv_blk s) 3 = false.
Proof. vm_compute. auto. Qed.
