(* C19 (search half, blocks) — proofs about the model of the kv block indexer (BlockModel.v)
   against the query matcher (Query.v). *)
From Coq Require Import String Ascii List ZArith Bool Lia Sorted.
From TM Require Import C19.Query C19.SearchModel C19.SearchProofs C19.BlockModel.
Import ListNotations.
Open Scope Z_scope.

(* ------------------------------------------------------------------ keys *)

Lemma bkey_eqb_eq : forall a b, bkey_eqb a b = true <-> a = b.
Proof.
  destruct a as [h|ck v h t], b as [h'|ck' v' h' t']; simpl; split; intro E;
    try discriminate; try congruence.
  - apply Z.eqb_eq in E. congruence.
  - inversion E. apply Z.eqb_refl.
  - rewrite !andb_true_iff in E. destruct E as [[[A B] C] D].
    apply String.eqb_eq in A. apply String.eqb_eq in B. apply String.eqb_eq in D.
    apply Z.eqb_eq in C. congruence.
  - inversion E; subst. rewrite !String.eqb_refl, Z.eqb_refl. reflexivity.
Qed.

Lemma bkey_eq_dec : forall a b : bkey, {a = b} + {a <> b}.
Proof. decide equality; try apply string_dec; apply Z.eq_dec. Qed.

(* the height a key carries *)
Definition kh (k : bkey) : Z := match k with PK h => h | EK _ _ h _ => h end.

Lemma bkeys_kh : forall b k, In k (bkeys b) -> kh k = b_height b.
Proof.
  intros b k [<-|I]; [reflexivity|].
  apply in_app_iff in I as [I|I]; apply in_map_iff in I as [tv [<- _]]; reflexivity.
Qed.

Lemma bkeys_in : forall b k, In k (bkeys b) <->
  k = PK (b_height b) \/
  (exists ck v, In (ck, v) (indexed_of (b_begin b)) /\ k = EK ck v (b_height b) BeginTyp) \/
  (exists ck v, In (ck, v) (indexed_of (b_end b)) /\ k = EK ck v (b_height b) EndTyp).
Proof.
  intros b k. unfold bkeys. simpl. rewrite in_app_iff, !in_map_iff. split.
  - intros [E|[[[ck v] [E I]]|[[ck v] [E I]]]]; auto.
    + right; left. exists ck, v. auto.
    + right; right. exists ck, v. auto.
  - intros [E|[[ck [v [I E]]]|[ck [v [I E]]]]]; auto.
    + right; left. exists (ck, v). auto.
    + right; right. exists (ck, v). auto.
Qed.

(* ------------------------------------------------------------------ what a history leaves in the store *)

Lemma bset_fold : forall h keys st k x,
  In (k, x) (fold_left (fun s k => bset k h s) keys st) <->
  (In k keys /\ x = h) \/ (~ In k keys /\ In (k, x) st).
Proof.
  intros h keys. induction keys as [|a keys IH]; intros st k x; simpl; [tauto|].
  rewrite IH. unfold bset. simpl. rewrite filter_In. simpl. rewrite negb_true_iff.
  destruct (bkey_eqb k a) eqn:K.
  - apply bkey_eqb_eq in K. subst k. split.
    + intros [[A B]|[A [B|[_ B]]]]; auto. injection B as B; left; auto. discriminate.
    + intros [[A B]|[A B]]; [|tauto].
      destruct (in_dec bkey_eq_dec a keys) as [I|I]; [left; auto|].
      right; split; auto. left; congruence.
  - assert (N : a <> k) by (intro X; subst k; rewrite (proj2 (bkey_eqb_eq _ _) eq_refl) in K; discriminate).
    split.
    + intros [[A B]|[A [B|[B _]]]]; [left; auto | injection B as B; congruence | right; tauto].
    + intros [[[A|A] B]|[A B]]; [congruence | left; auto | right; split; [tauto| right; tauto]].
Qed.

Lemma bset_fold_nodup : forall h keys st,
  NoDup (map fst st) -> NoDup (map fst (fold_left (fun s k => bset k h s) keys st)).
Proof.
  intros h keys. induction keys as [|a keys IH]; intros st N; simpl; [exact N|].
  apply IH. unfold bset. simpl. constructor.
  - intro X. apply in_map_iff in X as [[k x] [E X]]. apply filter_In in X as [_ X].
    simpl in E, X. subst k. rewrite (proj2 (bkey_eqb_eq _ _) eq_refl) in X. discriminate.
  - clear IH. induction st as [|e st IH]; simpl; [constructor|].
    inversion N; subst. destruct (negb (bkey_eqb (fst e) a)); simpl; auto.
    constructor; auto. intro X. apply H1. apply in_map_iff in X as [y [E X]].
    apply filter_In in X as [X _]. apply in_map_iff. exists y; auto.
Qed.

(* the store holds exactly the keys of the blocks whose Index returned nil, each once, each
   with the block's height as value *)
Record BStoreOK (hist : list block) (st : bstore) : Prop := {
  bok_in : forall k x, In (k, x) st <->
             exists b, In b hist /\ index_ok b = true /\ x = b_height b /\ In k (bkeys b);
  bok_nodup : NoDup (map fst st) }.

Lemma bindex_step : forall hist st b,
  BStoreOK hist st -> BStoreOK (hist ++ [b]) (fst (bindex st b)).
Proof.
  intros hist st b [I N]. unfold bindex. destruct (index_ok b) eqn:OK; cbn [fst].
  - constructor; [|apply bset_fold_nodup; exact N].
    intros k x. rewrite bset_fold. split.
    + intros [[A B]|[A B]].
      * exists b. rewrite in_app_iff. simpl. auto.
      * apply I in B as [b' [B1 [B2 [B3 B4]]]]. exists b'. rewrite in_app_iff. auto.
    + intros [b' [B1 [B2 [B3 B4]]]]. apply in_app_iff in B1 as [B1|[<-|[]]]; [|left; auto].
      destruct (in_dec bkey_eq_dec k (bkeys b)) as [J|J].
      * left. split; auto. rewrite B3, <- (bkeys_kh _ _ B4). apply bkeys_kh; exact J.
      * right. split; auto. apply I. exists b'. auto.
  - constructor; [|exact N]. intros k x. rewrite I. split.
    + intros [b' [B1 B2]]. exists b'. rewrite in_app_iff. auto.
    + intros [b' [B1 [B2 B3]]]. apply in_app_iff in B1 as [B1|[<-|[]]]; [|congruence].
      exists b'. auto.
Qed.

Lemma brun_ok_gen : forall hist pre st,
  BStoreOK pre st -> BStoreOK (pre ++ hist) (fold_left (fun st b => fst (bindex st b)) hist st).
Proof.
  induction hist as [|b hist IH]; intros pre st OK; simpl.
  - rewrite app_nil_r. exact OK.
  - change (b :: hist) with ([b] ++ hist). rewrite app_assoc. apply IH. apply bindex_step. exact OK.
Qed.

Lemma brun_ok : forall hist, BStoreOK hist (brun hist).
Proof.
  intro hist. apply (brun_ok_gen hist [] []). constructor; simpl; [|constructor].
  intros k x; split; [tauto | intros [b [[] _]]].
Qed.

Lemma bhas_spec : forall hist st h, BStoreOK hist st ->
  (bhas st h = true <-> exists b, In b hist /\ index_ok b = true /\ b_height b = h).
Proof.
  intros hist st h [I _]. unfold bhas. rewrite existsb_exists. split.
  - intros [[k x] [A B]]. simpl in B. apply bkey_eqb_eq in B. subst k.
    apply I in A as [b [B1 [B2 [B3 B4]]]]. exists b. split; auto. split; auto.
    apply bkeys_kh in B4. simpl in B4. auto.
  - intros [b [B1 [B2 B3]]]. exists (PK h, h). split.
    + apply I. exists b. repeat split; auto. left. congruence.
    + simpl. apply Z.eqb_refl.
Qed.

(* C19_block_indexed_once: after ANY history of Index calls (re-indexing included) the store
   holds every key once; a key is in the store, with value h, exactly when it is one of the keys
   of a block of height h whose Index returned nil (its primary key, or
   type.attr|value|h|begin_block/end_block of an attribute with Index=true); Has(h) holds
   exactly for the heights of these blocks. *)
Theorem C19_block_indexed_once : forall hist : list block,
  let st := brun hist in
  NoDup (map fst st) /\
  (forall k x, In (k, x) st <->
     exists b, In b hist /\ index_ok b = true /\ x = b_height b /\ In k (bkeys b)) /\
  (forall h, bhas st h = true <-> exists b, In b hist /\ index_ok b = true /\ b_height b = h).
Proof.
  intros hist st. pose proof (brun_ok hist) as OK. destruct OK as [I N].
  split; [exact N|]. split; [exact I|]. intro h. apply (bhas_spec hist). constructor; assumption.
Qed.

(* ------------------------------------------------------------------ the attributes of a block *)

Lemma indexed_of_in : forall evs ck v,
  In (ck, v) (indexed_of evs) -> exists i, In (ck, v, i) (all_attrs evs).
Proof.
  unfold indexed_of. intros evs ck v H. apply in_map_iff in H as [[[ck' v'] i] [E I]].
  simpl in E. injection E as -> ->. apply filter_In in I as [I _]. eauto.
Qed.

Lemma ok_not_reserved : forall b ck v, index_ok b = true ->
  In (ck, v) (indexed_of (b_begin b)) \/ In (ck, v) (indexed_of (b_end b)) ->
  ck <> BlockHeightKey.
Proof.
  intros b ck v OK I E. subst ck. unfold index_ok in OK.
  apply negb_true_iff, orb_false_iff in OK as [O1 O2].
  destruct I as [I|I]; apply indexed_of_in in I as [i I].
  - assert (R : reserved (b_begin b) = true); [|congruence].
    apply existsb_exists. exists (BlockHeightKey, v, i). split; auto.
  - assert (R : reserved (b_end b) = true); [|congruence].
    apply existsb_exists. exists (BlockHeightKey, v, i). split; auto.
Qed.

Lemma blk_attrs_in : forall b ck v, In (ck, v) (blk_attrs b) <->
  In (ck, v) (indexed_of (b_begin b)) \/ In (ck, v) (indexed_of (b_end b)) \/
  (ck = BlockHeightKey /\ v = dec (b_height b)).
Proof.
  unfold blk_attrs. intros. rewrite !in_app_iff. simpl. split.
  - intros [A|[A|[A|[]]]]; auto. injection A as <- <-. auto.
  - intros [A|[A|[-> ->]]]; auto.
Qed.

Lemma bhk_attr : forall b v, index_ok b = true ->
  (In (BlockHeightKey, v) (blk_attrs b) <-> v = dec (b_height b)).
Proof.
  intros b v OK. rewrite blk_attrs_in. split.
  - intros [A|[A|[_ A]]]; auto; exfalso; eapply ok_not_reserved; eauto.
  - intros ->. auto.
Qed.

Lemma blk_events_nonnil : forall b, blk_events b <> [].
Proof.
  intro b. unfold blk_events, group. destruct (map fst (blk_attrs b)) eqn:E.
  - apply map_eq_nil in E. unfold blk_attrs in E.
    apply app_eq_nil in E as [_ E]. apply app_eq_nil in E as [_ E]. discriminate.
  - simpl. discriminate.
Qed.

Lemma match_cond_group : forall c l, c_op c <> OpExists ->
  match_cond c (group l) = match_values (vals_of (c_key c) l) (c_op c) (c_arg c).
Proof.
  intros c l NE. unfold match_cond. rewrite ev_lookup_group.
  destruct (smem (c_key c) (map fst l)) eqn:S.
  - destruct (c_op c); try reflexivity. contradiction.
  - rewrite (vals_nil _ _ S). destruct (c_op c); try reflexivity. contradiction.
Qed.

Lemma match_cond_group_exists : forall c l, c_op c = OpExists ->
  has_char "."%char (c_key c) = true ->
  (match_cond c (group l) = MTrue <-> exists v, In (c_key c, v) l).
Proof.
  intros c l E DOT. unfold match_cond. rewrite E, DOT, ev_lookup_group, <- smem_fst.
  destruct (smem (c_key c) (map fst l)); simpl; split; auto; discriminate.
Qed.

(* ------------------------------------------------------------------ the loops of Search *)

Lemma zmem_In : forall x l, zmem x l = true <-> In x l.
Proof.
  induction l as [|y l IH]; simpl; [split; [discriminate | tauto]|].
  rewrite orb_true_iff, IH, Z.eqb_eq. split; intros [E|E]; auto.
Qed.

Lemma bsteps_app : forall l1 l2 i f,
  brun_steps (l1 ++ l2) i f =
  match brun_steps l1 i f with Some (i', f') => brun_steps l2 i' f' | None => None end.
Proof.
  induction l1 as [|a l1 IH]; intros l2 i f; simpl; [reflexivity|].
  destruct i.
  - destruct (znil f); [apply IH|]. destruct a; [apply IH | reflexivity].
  - destruct a; [apply IH | reflexivity].
Qed.

Lemma bsteps_true : forall ts f, exists f',
  brun_steps (map Some ts) true f = Some (true, f') /\
  forall x, In x f' <-> In x f /\ forall t, In t ts -> In x t.
Proof.
  induction ts as [|t ts IH]; intro f; simpl.
  - exists f. split; auto. intro x. split; [intro; split; [auto | intros ? []] | tauto].
  - destruct f as [|a f]; simpl.
    + destruct (IH []) as [f' [E S]]. exists f'. split; auto. intro x. rewrite S. simpl. tauto.
    + set (f1 := if znil t then t else filter (fun h => zmem h t) (a :: f)).
      destruct (IH f1) as [f' [E S]]. exists f'. split; auto. intro x. rewrite S.
      assert (F1 : In x f1 <-> In x (a :: f) /\ In x t).
      { unfold f1. destruct t as [|b t]; simpl znil; cbv iota.
        - simpl. tauto.
        - rewrite filter_In, zmem_In. tauto. }
      rewrite F1. split.
      * intros [[A B] C]. split; auto. intros t' [<-|I]; auto.
      * intros [A B]. split; [split|]; auto.
Qed.

Lemma bsteps_false : forall ts, ts <> [] -> exists f',
  brun_steps (map Some ts) false [] = Some (true, f') /\
  forall x, In x f' <-> forall t, In t ts -> In x t.
Proof.
  intros [|t ts] NE; [contradiction|]. simpl.
  destruct (bsteps_true ts t) as [f' [E S]]. exists f'. split; auto. intro x. rewrite S. split.
  - intros [A B] t' [<-|I]; auto.
  - intro H. split; auto.
Qed.

Lemma map_some : forall (A : Type) (g : A -> option (list Z)) (P : A -> list Z -> Prop) (l : list A),
  (forall c, In c l -> exists t, g c = Some t /\ P c t) ->
  exists ts, map g l = map Some ts /\ Forall2 P l ts.
Proof.
  intros A g P. induction l as [|c l IH]; intro H.
  - exists []. split; [reflexivity | constructor].
  - destruct (H c (or_introl eq_refl)) as [t [E Pt]].
    destruct IH as [ts [E' F]]; [intros; apply H; right; assumption|].
    exists (t :: ts). simpl. rewrite E, E'. split; [reflexivity | constructor; auto].
Qed.

Lemma forall2_all : forall (A : Type) (S : A -> Z -> Prop) (l : list A) (ts : list (list Z)) x,
  Forall2 (fun c t => forall y, In y t <-> S c y) l ts ->
  ((forall t, In t ts -> In x t) <-> (forall c, In c l -> S c x)).
Proof.
  intros A S l ts x F. induction F as [|c t l ts P F IH]; simpl; [tauto|]. split.
  - intros H c' [<-|I]; [apply P, H; auto | apply IH; auto].
  - intros H t' [<-|I]; [apply P, H; auto | apply IH; auto].
Qed.

(* ------------------------------------------------------------------ sort *)

Lemma zinsert_in : forall x y l, In x (zinsert y l) <-> x = y \/ In x l.
Proof.
  induction l as [|a l IH]; simpl; [intuition|].
  destruct (Z.ltb_spec y a); simpl; [intuition|].
  destruct (Z.eqb_spec y a); simpl; [subst; intuition|]. rewrite IH. intuition.
Qed.

Lemma zinsert_sorted : forall y l, StronglySorted Z.lt l -> StronglySorted Z.lt (zinsert y l).
Proof.
  induction l as [|a l IH]; intro S; simpl; [repeat constructor|].
  inversion S as [|? ? S' F]; subst.
  destruct (Z.ltb_spec y a).
  - constructor; auto. constructor; auto.
    rewrite Forall_forall in *. intros z I. specialize (F z I). lia.
  - destruct (Z.eqb_spec y a); [exact S|]. constructor; auto.
    rewrite Forall_forall in *. intros z I. apply zinsert_in in I as [->|I]; [lia | auto].
Qed.

Lemma zsort_in : forall x l, In x (zsort l) <-> In x l.
Proof.
  induction l as [|a l IH]; simpl; [tauto|]. rewrite zinsert_in, IH. intuition.
Qed.

Lemma zsort_sorted : forall l, StronglySorted Z.lt (zsort l).
Proof. induction l; simpl; [constructor | apply zinsert_sorted; assumption]. Qed.

(* ------------------------------------------------------------------ range conditions *)

Definition is_range (c : cond) : bool := is_range_op (c_op c).
Definition single (c : cond) : qrange := apply_cond c (empty_range (c_key c)).

Lemma apply_cond_key : forall c r, r_key (apply_cond c r) = r_key r.
Proof. intros c r. unfold apply_cond. destruct (c_op c); reflexivity. Qed.

(* ------------------------------------------------------------------ one condition = one scan *)

Definition bvals (k : string) (b : block) : list string := vals_of k (blk_attrs b).

(* the indexed values integer conditions on k are compared with are decimal renderings on
   which the matcher's and the indexer's readings agree *)
Definition BNumKey (hist : list block) (k : string) : Prop :=
  forall b v, In b hist -> index_ok b = true -> In v (bvals k b) -> NumOK v.

(* the query sub-language of the exactness theorem (per condition) *)
Definition bwf_cond (hist : list block) (c : cond) : Prop :=
  match c_op c, c_arg c with
  | OpEq, OStr _ => c_key c <> BlockHeightKey
  | OpContains, OStr _ => c_key c <> BlockHeightKey
  | OpExists, _ => has_char "."%char (c_key c) = true
  | (OpEq | OpLe | OpGe | OpLt | OpGt), OInt _ => BNumKey hist (c_key c)
  | _, _ => False
  end.

Section BHits.
Variables (hist : list block) (st : bstore).
Hypothesis OK : BStoreOK hist st.

(* block b's Index returned nil and b has height h *)
Definition At (h : Z) (b : block) : Prop := In b hist /\ index_ok b = true /\ b_height b = h.

Definition Sat (c : cond) (h : Z) : Prop :=
  exists b, At h b /\ match_cond c (blk_events b) = MTrue.

Lemma pk_in : forall h x, In (PK h, x) st <-> x = h /\ exists b, At h b.
Proof.
  intros h x. rewrite (bok_in _ _ OK). unfold At. split.
  - intros [b [B1 [B2 [B3 B4]]]]. apply bkeys_kh in B4. simpl in B4.
    split; [congruence|]. exists b. auto.
  - intros [-> [b [B1 [B2 B3]]]]. exists b. repeat split; auto. left. congruence.
Qed.

Lemma ek_in : forall ck v h typ x, In (EK ck v h typ, x) st ->
  ck <> BlockHeightKey /\ x = h /\ exists b, At h b /\ In (ck, v) (blk_attrs b).
Proof.
  intros ck v h typ x H. apply (bok_in _ _ OK) in H as [b [B1 [B2 [B3 B4]]]].
  apply bkeys_in in B4 as [E|[[ck' [v' [I E]]]|[ck' [v' [I E]]]]]; [discriminate| |];
    injection E as -> -> -> _.
  - split; [eapply ok_not_reserved; eauto|]. split; auto. exists b. unfold At.
    repeat split; auto. apply blk_attrs_in. auto.
  - split; [eapply ok_not_reserved; eauto|]. split; auto. exists b. unfold At.
    repeat split; auto. apply blk_attrs_in. auto.
Qed.

Lemma ek_ex : forall ck v h b, At h b -> ck <> BlockHeightKey -> In (ck, v) (blk_attrs b) ->
  exists typ, In (EK ck v h typ, h) st.
Proof.
  intros ck v h b [B1 [B2 B3]] NK I. apply blk_attrs_in in I as [I|[I|[E _]]]; [| |contradiction].
  - exists BeginTyp. apply (bok_in _ _ OK). exists b. repeat split; auto.
    apply bkeys_in. right; left. exists ck, v. subst h. auto.
  - exists EndTyp. apply (bok_in _ _ OK). exists b. repeat split; auto.
    apply bkeys_in. right; right. exists ck, v. subst h. auto.
Qed.

(* scan of orderedcode(k, s), k an application key *)
Lemma p2_hits : forall k s x, k <> BlockHeightKey ->
  (In x (map snd (bscan st (P2 k s))) <-> exists b, At x b /\ In (k, s) (blk_attrs b)).
Proof.
  intros k s x NK. rewrite in_map_iff. split.
  - intros [[key x'] [E I]]. simpl in E. subst x'. apply filter_In in I as [I P]. simpl in P.
    destruct key as [h|ck v h typ]; [discriminate|].
    apply andb_true_iff in P as [P1 P2]. apply String.eqb_eq in P1. apply String.eqb_eq in P2.
    subst ck v. apply ek_in in I as [_ [-> B]]. exact B.
  - intros [b [B I]]. destruct (ek_ex k s x b B NK I) as [typ J].
    exists (EK k s x typ, x). split; [reflexivity|]. apply filter_In. split; auto.
    simpl. rewrite !String.eqb_refl. reflexivity.
Qed.

(* scan of orderedcode(k), k an application key: the event keys of k *)
Lemma p1_fwd : forall k key x, k <> BlockHeightKey -> In (key, x) (bscan st (P1 k)) ->
  exists v typ, key = EK k v x typ /\ exists b, At x b /\ In (k, v) (blk_attrs b).
Proof.
  intros k key x NK H. apply filter_In in H as [I P]. simpl in P. destruct key as [h|ck v h typ].
  - apply String.eqb_eq in P. contradiction.
  - apply String.eqb_eq in P. subst ck. apply ek_in in I as [_ [-> B]]. exists v, typ. auto.
Qed.

Lemma p1_bwd : forall k v x b, k <> BlockHeightKey -> At x b -> In (k, v) (blk_attrs b) ->
  exists typ, In (EK k v x typ, x) (bscan st (P1 k)).
Proof.
  intros k v x b NK B I. destruct (ek_ex k v x b B NK I) as [typ J]. exists typ.
  apply filter_In. split; auto. simpl. apply String.eqb_refl.
Qed.

(* scan of orderedcode(block.height): the primary keys *)
Lemma p1h_fwd : forall key x, In (key, x) (bscan st (P1 BlockHeightKey)) ->
  key = PK x /\ exists b, At x b.
Proof.
  intros key x H. apply filter_In in H as [I P]. cbn [fst bmatch_prefix] in P.
  destruct key as [h|ck v h typ].
  - apply pk_in in I as [-> B]. auto.
  - apply String.eqb_eq in P. subst ck. apply ek_in in I as [N _]. contradiction.
Qed.

Lemma p1h_bwd : forall x b, At x b -> In (PK x, x) (bscan st (P1 BlockHeightKey)).
Proof.
  intros x b B. apply filter_In. split; [|reflexivity]. apply pk_in. split; eauto.
Qed.

(* ---- the matcher on a block of the history ---- *)

Lemma sat_vals : forall c h, c_op c <> OpExists ->
  (Sat c h <-> exists b, At h b /\ match_values (bvals (c_key c) b) (c_op c) (c_arg c) = MTrue).
Proof.
  intros c h NE. unfold Sat, blk_events, bvals.
  split; intros [b [B M]]; exists b; split; auto; rewrite match_cond_group in *; auto.
Qed.

Lemma sat_int : forall k op z h, op <> OpExists -> BNumKey hist k ->
  (Sat {| c_key := k; c_op := op; c_arg := OInt z |} h <->
   exists b, At h b /\ exists n, In (k, dec n) (blk_attrs b) /\ cmp_ok op n z = true).
Proof.
  intros k op z h NE NK. rewrite sat_vals by exact NE. cbn [c_key c_op c_arg].
  split; intros [b [B M]]; exists b; split; auto.
  - apply mv_int in M; [|intros v I; destruct B as [B1 [B2 _]]; apply (NK b v B1 B2 I)].
    destruct M as [n [M1 M2]]. exists n. split; auto. apply In_vals. exact M1.
  - apply mv_int; [intros v I; destruct B as [B1 [B2 _]]; apply (NK b v B1 B2 I)|].
    destruct M as [n [M1 M2]]. exists n. split; auto. apply In_vals. exact M1.
Qed.

(* ---- "=", CONTAINS, EXISTS ---- *)

Lemma bcond_hits_spec : forall c, bwf_cond hist c -> is_range c = false ->
  exists t, bcond_hits st c = Some t /\ forall x, In x t <-> Sat c x.
Proof.
  intros [k op arg] W NR. unfold bwf_cond in W. cbn [c_key c_op c_arg] in W.
  unfold is_range in NR. cbn [c_op] in NR. unfold bcond_hits. cbn [c_key c_op c_arg].
  destruct op; try discriminate NR.
  - (* = *)
    destruct arg as [s|z|t|]; try contradiction.
    + (* = 'string' *)
      eexists. split; [reflexivity|]. intro x. rewrite p2_hits by exact W.
      rewrite sat_vals by discriminate. cbn [c_key c_op c_arg].
      split; intros [b [B M]]; exists b; split; auto.
      * apply mv_eq_str, In_vals. exact M.
      * apply mv_eq_str, In_vals in M. exact M.
    + (* = integer *)
      destruct (String.eqb_spec k BlockHeightKey) as [->|NK].
      * eexists. split; [reflexivity|]. intro x. rewrite sat_int by (discriminate || exact W).
        rewrite in_map_iff. split.
        -- intros [[key x'] [E I]]. simpl in E. subst x'. apply filter_In in I as [I P].
           simpl in P. destruct key as [h|]; [|discriminate]. apply Z.eqb_eq in P. subst h.
           apply pk_in in I as [E [b B]]. subst x. exists b. split; auto. exists z. split.
           ++ destruct B as [_ [B2 B3]]. apply bhk_attr; [exact B2 | congruence].
           ++ simpl. apply Z.eqb_refl.
        -- intros [b [B [n [I C]]]]. simpl in C. apply Z.eqb_eq in C. subst n.
           pose proof B as [_ [B2 B3]]. apply bhk_attr in I; [|exact B2]. apply dec_inj in I.
           exists (PK z, x). split; [reflexivity|]. apply filter_In. split.
           ++ apply pk_in. split; [congruence|]. exists b. destruct B as [B1 _].
              unfold At. repeat split; auto.
           ++ simpl. apply Z.eqb_refl.
      * eexists. split; [reflexivity|]. intro x. rewrite p2_hits by exact NK.
        rewrite sat_int by (discriminate || exact W).
        split; intros [b [B M]]; exists b; split; auto.
        -- exists z. split; auto. simpl. apply Z.eqb_refl.
        -- destruct M as [n [I C]]. simpl in C. apply Z.eqb_eq in C. subst n. exact I.
  - (* CONTAINS *)
    destruct arg as [s|z|t|]; try contradiction.
    eexists. split; [reflexivity|]. intro x. rewrite sat_vals by discriminate.
    cbn [c_key c_op c_arg]. rewrite in_flat_map. split.
    + intros [[key x'] [I G]]. apply (p1_fwd k key x' W) in I as [v [typ [-> [b [B I]]]]].
      cbn [fst snd] in G. destruct (str_contains s v) eqn:SC; [|destruct G].
      destruct G as [<-|[]]. exists b. split; auto. apply mv_contains. exists v. split; auto.
      apply In_vals. exact I.
    + intros [b [B M]]. apply mv_contains in M as [v [M1 M2]]. apply In_vals in M1.
      destruct (p1_bwd k v x b W B M1) as [typ J]. exists (EK k v x typ, x). split; auto.
      cbn [fst snd]. rewrite M2. left; reflexivity.
  - (* EXISTS *)
    assert (DOT : has_char "."%char k = true) by (destruct arg; exact W).
    eexists. split; [reflexivity|]. intro x. unfold Sat, blk_events.
    rewrite in_map_iff. destruct (String.eqb_spec k BlockHeightKey) as [->|NK].
    + split.
      * intros [[key x'] [E I]]. simpl in E. subst x'. apply p1h_fwd in I as [_ [b B]].
        exists b. split; auto. apply match_cond_group_exists; auto.
        exists (dec (b_height b)). apply bhk_attr; [apply B | reflexivity].
      * intros [b [B _]]. exists (PK x, x). split; [reflexivity | eapply p1h_bwd; eauto].
    + split.
      * intros [[key x'] [E I]]. simpl in E. subst x'.
        apply (p1_fwd k key x NK) in I as [v [typ [_ [b [B I]]]]].
        exists b. split; auto. apply match_cond_group_exists; auto. exists v. exact I.
      * intros [b [B M]]. apply match_cond_group_exists in M as [v M]; auto. cbn [c_key] in M.
        destruct (p1_bwd k v x b NK B M) as [typ J]. exists (EK k v x typ, x). auto.
Qed.

(* ---- ranges ---- *)

Lemma numok_parse : forall v, NumOK v -> exists z, v = dec z /\ parse_int_go v = Some z.
Proof. intros v [z [E [_ P]]]. eauto. Qed.

Lemma numok_dec : forall n, NumOK (dec n) -> parse_int_go (dec n) = Some n.
Proof. intros n [z [E [_ P]]]. apply dec_inj in E. subst z. exact P. Qed.

(* what a range scan on k compares: the integer readings of the values of k *)
Lemma cands_spec : forall k n x, BNumKey hist k ->
  (In (n, x) (range_cands st k) <-> exists b, At x b /\ In (k, dec n) (blk_attrs b)).
Proof.
  intros k n x NK. unfold range_cands. rewrite in_flat_map.
  destruct (String.eqb_spec k BlockHeightKey) as [->|NH].
  - split.
    + intros [[key x'] [I G]]. apply p1h_fwd in I as [-> [b B]]. cbn [fst snd range_value] in G.
      assert (N : NumOK (dec x')).
      { destruct B as [B1 [B2 B3]]. apply (NK b _ B1 B2). apply In_vals, bhk_attr; congruence. }
      rewrite (numok_dec _ N) in G. destruct G as [G|[]]. injection G as <- <-.
      exists b. split; auto. destruct B as [_ [B2 B3]]. apply bhk_attr; congruence.
    + intros [b [B I]]. pose proof B as [B1 [B2 B3]].
      assert (N : NumOK (dec n)) by (apply (NK b _ B1 B2), In_vals; exact I).
      apply bhk_attr in I; [|exact B2]. apply dec_inj in I. rewrite B3 in I. subst n.
      exists (PK x, x). split; [eapply p1h_bwd; eauto|]. cbn [fst snd range_value].
      rewrite (numok_dec _ N). left; reflexivity.
  - split.
    + intros [[key x'] [I G]]. apply (p1_fwd k key x' NH) in I as [v [typ [-> [b [B I]]]]].
      cbn [fst snd range_value] in G.
      assert (N : NumOK v) by (destruct B as [B1 [B2 _]]; apply (NK b _ B1 B2), In_vals; exact I).
      destruct (numok_parse _ N) as [z [-> P]]. rewrite P in G. destruct G as [G|[]].
      injection G as <- <-. exists b. auto.
    + intros [b [B I]].
      assert (N : NumOK (dec n)) by (destruct B as [B1 [B2 _]]; apply (NK b _ B1 B2), In_vals; exact I).
      destruct (p1_bwd k (dec n) x b NH B I) as [typ J]. exists (EK k (dec n) x typ, x).
      split; auto. cbn [fst snd range_value]. rewrite (numok_dec _ N). left; reflexivity.
Qed.

Lemma brange_generic : forall r lo hi,
  lower_value r = Some lo -> upper_value r = Some hi -> is_bad lo = false -> is_bad hi = false ->
  any_is_int r = true ->
  brange_hits st r =
  Some (map snd (filter (fun vh => lo_ok lo (fst vh) && hi_ok hi (fst vh)) (range_cands st (r_key r)))).
Proof.
  intros r lo hi L H BL BH A. unfold brange_hits. rewrite L, H, A, BL, BH.
  destruct (range_cands st (r_key r)); reflexivity.
Qed.

Lemma brange_hits_spec : forall c, bwf_cond hist c -> is_range c = true ->
  exists t, brange_hits st (single c) = Some t /\ forall x, In x t <-> Sat c x.
Proof.
  intros [k op arg] W R. unfold bwf_cond in W. cbn [c_key c_op c_arg] in W.
  unfold is_range in R. cbn [c_op] in R.
  assert (forall lo hi,
            lower_value (single {| c_key := k; c_op := op; c_arg := arg |}) = Some lo ->
            upper_value (single {| c_key := k; c_op := op; c_arg := arg |}) = Some hi ->
            is_bad lo = false -> is_bad hi = false ->
            any_is_int (single {| c_key := k; c_op := op; c_arg := arg |}) = true ->
            BNumKey hist k ->
            (forall z, arg = OInt z -> forall n, lo_ok lo n && hi_ok hi n = cmp_ok op n z) ->
            (exists z, arg = OInt z) -> op <> OpExists ->
            exists t, brange_hits st (single {| c_key := k; c_op := op; c_arg := arg |}) = Some t /\
                      forall x, In x t <-> Sat {| c_key := k; c_op := op; c_arg := arg |} x) as GEN.
  { intros lo hi L H BL BH A NK CMP [z ->] NE. eexists. split; [apply (brange_generic _ lo hi); auto|].
    intro x. rewrite sat_int by assumption.
    replace (r_key (single {| c_key := k; c_op := op; c_arg := OInt z |})) with k
      by (unfold single; rewrite apply_cond_key; reflexivity).
    rewrite in_map_iff. split.
    - intros [[n x'] [E I]]. simpl in E. subst x'. apply filter_In in I as [I F]. cbn [fst] in F.
      apply (cands_spec k n x NK) in I as [b [B I]]. exists b. split; auto. exists n. split; auto.
      rewrite <- (CMP z eq_refl). exact F.
    - intros [b [B [n [I C]]]]. exists (n, x). split; [reflexivity|]. apply filter_In. split.
      + apply (cands_spec k n x NK). eauto.
      + cbn [fst]. rewrite (CMP z eq_refl). exact C. }
  destruct op; try discriminate R; destruct arg as [s|z|t|]; try contradiction.
  - apply (GEN BNone (BInt z)); try reflexivity; try exact W; try discriminate; eauto.
    intros z' E n. injection E as <-. reflexivity.
  - apply (GEN (BInt z) BNone); try reflexivity; try exact W; try discriminate; eauto.
    intros z' E n. injection E as <-. simpl. rewrite andb_true_r. rewrite Z.geb_leb. reflexivity.
  - apply (GEN BNone (BInt (z - 1))); try reflexivity; try exact W; try discriminate; eauto.
    intros z' E n. injection E as <-. simpl.
    destruct (Z.leb_spec n (z - 1)), (Z.ltb_spec n z); try reflexivity; lia.
  - apply (GEN (BInt (z + 1)) BNone); try reflexivity; try exact W; try discriminate; eauto.
    intros z' E n. injection E as <-. simpl. rewrite andb_true_r. rewrite Z.gtb_ltb.
    destruct (Z.leb_spec (z + 1) n), (Z.ltb_spec z n); try reflexivity; lia.
Qed.

End BHits.

(* ------------------------------------------------------------------ exactness of Search *)

(* two blocks of the same height whose Index returned nil carry the same indexed attributes
   (a height is indexed once, or re-indexed with the same events) *)
Definition BConsistent (hist : list block) : Prop :=
  forall b1 b2, In b1 hist -> index_ok b1 = true -> In b2 hist -> index_ok b2 = true ->
    b_height b1 = b_height b2 -> blk_attrs b1 = blk_attrs b2.

Lemma forall2_nil_r : forall (A B : Type) (P : A -> B -> Prop) l, Forall2 P l [] -> l = [].
Proof. intros A B P l F. inversion F. reflexivity. Qed.

(* ------------------------------------------------------------------ LookForRanges in general *)

Definition on_key (k : string) (c : cond) : bool := is_range c && String.eqb (c_key c) k.
(* the range conditions on key k, in order *)
Definition ck (q : query) (k : string) : list cond := filter (on_key k) q.
(* the QueryRange LookForRanges builds for key k: every range condition on k applied in order *)
Definition merged (q : query) (k : string) : qrange :=
  fold_left (fun r c => apply_cond c r) (ck q k) (empty_range k).
(* the keys with a range condition, in order of first appearance *)
Definition range_keys (q : query) : list string := sdedup (map c_key (filter is_range q)).

Lemma fold_apply_key : forall cs r, r_key (fold_left (fun r c => apply_cond c r) cs r) = r_key r.
Proof. induction cs as [|c cs IH]; intro r; simpl; [reflexivity|]. rewrite IH. apply apply_cond_key. Qed.

Lemma merged_key : forall q k, r_key (merged q k) = k.
Proof. intros. unfold merged. rewrite fold_apply_key. reflexivity. Qed.

Lemma sdedup_snoc : forall l k,
  sdedup (l ++ [k]) = if smem k l then sdedup l else sdedup l ++ [k].
Proof.
  induction l as [|x l IH]; intro k; simpl; [reflexivity|]. rewrite IH.
  destruct (String.eqb_spec k x) as [->|N]; simpl.
  - destruct (smem x l); [reflexivity|]. rewrite filter_app. simpl. rewrite String.eqb_refl. simpl.
    rewrite app_nil_r. reflexivity.
  - destruct (smem k l); [reflexivity|]. rewrite filter_app. simpl.
    destruct (String.eqb_spec k x); [contradiction|]. reflexivity.
Qed.

Lemma sdedup_nodup : forall l, NoDup (sdedup l).
Proof.
  induction l as [|x l IH]; simpl; constructor.
  - intro I. apply filter_In in I as [_ I]. rewrite String.eqb_refl in I. discriminate.
  - apply NoDup_filter. exact IH.
Qed.

Lemma upd_range_map : forall c (f : string -> qrange) keys,
  (forall k, r_key (f k) = k) -> NoDup keys ->
  upd_range c (map f keys) =
  if smem (c_key c) keys
  then map (fun k => if String.eqb k (c_key c) then apply_cond c (f k) else f k) keys
  else map f keys ++ [apply_cond c (empty_range (c_key c))].
Proof.
  intros c f keys FK. induction keys as [|k0 keys IH]; intro ND; simpl; [reflexivity|].
  inversion ND as [|? ? NI ND']; subst. rewrite FK.
  destruct (String.eqb_spec k0 (c_key c)) as [E|N].
  - subst k0. rewrite String.eqb_refl. simpl. f_equal. apply map_ext_in. intros k I.
    destruct (String.eqb_spec k (c_key c)); [subst; contradiction | reflexivity].
  - destruct (String.eqb_spec (c_key c) k0); [congruence|]. simpl. rewrite (IH ND').
    destruct (smem (c_key c) keys); reflexivity.
Qed.

Lemma ck_none : forall q k, ~ In k (map c_key (filter is_range q)) -> ck q k = [].
Proof.
  induction q as [|c q IH]; intros k N; simpl; [reflexivity|]. unfold on_key at 1.
  simpl in N. destruct (is_range c) eqn:R; simpl in *.
  - destruct (String.eqb_spec (c_key c) k) as [E|_]; [exfalso; apply N; auto|]. apply IH. tauto.
  - apply IH. exact N.
Qed.

Lemma merged_snoc : forall q c k,
  merged (q ++ [c]) k = if on_key k c then apply_cond c (merged q k) else merged q k.
Proof.
  intros. unfold merged, ck. rewrite filter_app. simpl. destruct (on_key k c).
  - rewrite fold_left_app. reflexivity.
  - rewrite app_nil_r. reflexivity.
Qed.

Lemma lfr_char : forall q, look_for_ranges q = map (merged q) (range_keys q).
Proof.
  induction q as [|c q IH] using rev_ind; [reflexivity|].
  unfold look_for_ranges in *. rewrite fold_left_app. simpl. rewrite IH. clear IH.
  unfold range_keys. rewrite filter_app. simpl. fold (is_range c).
  destruct (is_range c) eqn:R.
  - rewrite map_app. simpl. rewrite sdedup_snoc.
    rewrite (upd_range_map c (merged q)) by (apply merged_key || apply sdedup_nodup).
    rewrite smem_sdedup. fold (range_keys q).
    destruct (smem (c_key c) (map c_key (filter is_range q))) eqn:S.
    + apply map_ext. intro k. rewrite merged_snoc. unfold on_key. rewrite R. simpl.
      rewrite String.eqb_sym. reflexivity.
    + rewrite map_app. simpl. f_equal.
      * apply map_ext_in. intros k I. rewrite merged_snoc. unfold on_key. rewrite R. simpl.
        destruct (String.eqb_spec (c_key c) k) as [E|_]; [|reflexivity].
        exfalso. subst k. unfold range_keys in I. apply (proj1 (sdedup_In _ _)) in I.
        apply (proj2 (smem_In _ _)) in I. congruence.
      * rewrite merged_snoc. unfold on_key. rewrite R, String.eqb_refl. simpl. f_equal. f_equal.
        unfold merged. rewrite ck_none; [reflexivity|]. intro I. apply (proj2 (smem_In _ _)) in I. congruence.
  - rewrite app_nil_r. apply map_ext. intro k. rewrite merged_snoc. unfold on_key. rewrite R.
    reflexivity.
Qed.

(* ------------------------------------------------------------------ the hits of a merged range *)

Definition is_lower_op (o : opr) : bool := match o with OpGt | OpGe => true | _ => false end.

(* every indexed block has at most one value under k *)
Definition SingleValued (hist : list block) (k : string) : Prop :=
  forall b, In b hist -> index_ok b = true -> (List.length (bvals k b) <= 1)%nat.

(* the range conditions on one key are one condition, or a lower and an upper bound on a key
   that is single-valued in every indexed block *)
Definition RangeShape (hist : list block) (q : query) : Prop :=
  forall k, In k (range_keys q) ->
    (exists c, ck q k = [c]) \/
    (exists c1 c2, ck q k = [c1; c2] /\
       is_lower_op (c_op c1) = negb (is_lower_op (c_op c2)) /\ SingleValued hist k).

Lemma brange_int_spec : forall hist st, BStoreOK hist st -> forall r lo hi,
  lower_value r = Some lo -> upper_value r = Some hi -> is_bad lo = false -> is_bad hi = false ->
  any_is_int r = true -> BNumKey hist (r_key r) ->
  exists t, brange_hits st r = Some t /\
    forall x, In x t <->
      exists b, At hist x b /\
        exists n, In (r_key r, dec n) (blk_attrs b) /\ lo_ok lo n && hi_ok hi n = true.
Proof.
  intros hist st OK r lo hi L H BL BH A NK. eexists.
  split; [apply (brange_generic st r lo hi); auto|].
  intro x. rewrite in_map_iff. split.
  - intros [[n x'] [E I]]. simpl in E. subst x'. apply filter_In in I as [I F]. cbn [fst] in F.
    apply (cands_spec hist st OK _ n x NK) in I as [b [B I]]. exists b. split; auto. exists n. auto.
  - intros [b [B [n [I C]]]]. exists (n, x). split; [reflexivity|]. apply filter_In. split.
    + apply (cands_spec hist st OK _ n x NK). eauto.
    + exact C.
Qed.

Lemma two_bounds : forall k op1 z1 op2 z2,
  is_range_op op1 = true -> is_range_op op2 = true ->
  is_lower_op op1 = negb (is_lower_op op2) ->
  let r := apply_cond {| c_key := k; c_op := op2; c_arg := OInt z2 |}
             (apply_cond {| c_key := k; c_op := op1; c_arg := OInt z1 |} (empty_range k)) in
  exists lo hi, lower_value r = Some lo /\ upper_value r = Some hi /\
    is_bad lo = false /\ is_bad hi = false /\ any_is_int r = true /\
    forall n, lo_ok lo n && hi_ok hi n = cmp_ok op1 n z1 && cmp_ok op2 n z2.
Proof.
  intros k op1 z1 op2 z2 R1 R2 LU.
  destruct op1; try discriminate R1; destruct op2; try discriminate R2; simpl in LU;
    try discriminate LU;
    cbv zeta; (eexists; eexists; split; [reflexivity|]; split; [reflexivity|];
    split; [reflexivity|]; split; [reflexivity|]; split; [reflexivity|]);
    intro n; unfold cmp_ok, lo_ok, hi_ok; simpl; rewrite ?Z.gtb_ltb, ?Z.geb_leb;
    repeat match goal with
           | |- context [Z.leb ?a ?b] => destruct (Z.leb_spec a b)
           | |- context [Z.ltb ?a ?b] => destruct (Z.ltb_spec a b)
           end; simpl; try reflexivity; lia.
Qed.


Lemma wf_range_arg : forall hist c, bwf_cond hist c -> is_range c = true ->
  exists z, c_arg c = OInt z /\ BNumKey hist (c_key c) /\ c_op c <> OpExists.
Proof.
  intros hist [k op arg] W R. unfold bwf_cond in W. unfold is_range in R. simpl in *.
  destruct op; try discriminate R; destruct arg; try contradiction; eexists; repeat split; eauto;
    discriminate.
Qed.

Lemma single_valued_eq : forall k (l : list (string * string)) v1 v2,
  (List.length (vals_of k l) <= 1)%nat -> In (k, v1) l -> In (k, v2) l -> v1 = v2.
Proof.
  intros k l v1 v2 LE I1 I2. apply In_vals in I1. apply In_vals in I2.
  destruct (vals_of k l) as [|a [|b r]]; simpl in *; try lia; intuition congruence.
Qed.

Lemma merged_hits : forall hist st, BStoreOK hist st -> BConsistent hist -> forall q,
  (forall c, In c q -> bwf_cond hist c) -> RangeShape hist q ->
  forall k, In k (range_keys q) ->
  exists t, brange_hits st (merged q k) = Some t /\
    forall x, In x t <-> forall c, In c (ck q k) -> Sat hist c x.
Proof.
  intros hist st OK CONS q WF SH k IK.
  assert (CK : forall c, In c (ck q k) -> In c q /\ is_range c = true /\ c_key c = k).
  { intros c I. apply filter_In in I as [I O]. unfold on_key in O.
    apply andb_true_iff in O as [O1 O2]. apply String.eqb_eq in O2. auto. }
  destruct (SH k IK) as [[c E]|[c1 [c2 [E [LU SV]]]]].
  - destruct (CK c) as [I [R K]]; [rewrite E; left; reflexivity|].
    destruct (brange_hits_spec hist st OK c (WF c I) R) as [t [H S]].
    exists t. split.
    + unfold merged. rewrite E. simpl. unfold single in H. rewrite K in H. exact H.
    + intro x. rewrite S, E. split; [intros A c' [<-|[]]; exact A | intro A; apply A; left; reflexivity].
  - destruct (CK c1) as [I1 [R1 K1]]; [rewrite E; left; reflexivity|].
    destruct (CK c2) as [I2 [R2 K2]]; [rewrite E; right; left; reflexivity|].
    destruct (wf_range_arg hist c1 (WF c1 I1) R1) as [z1 [A1 [NK1 NE1]]].
    destruct (wf_range_arg hist c2 (WF c2 I2) R2) as [z2 [A2 [NK2 NE2]]].
    destruct c1 as [k1 op1 a1], c2 as [k2 op2 a2]. simpl in *. subst k1 k2 a1 a2.
    destruct (two_bounds k op1 z1 op2 z2 R1 R2 LU) as [lo [hi [L [H [BL [BH [AI CMP]]]]]]].
    cbv zeta in *.
    assert (M : merged q k = apply_cond {| c_key := k; c_op := op2; c_arg := OInt z2 |}
                   (apply_cond {| c_key := k; c_op := op1; c_arg := OInt z1 |} (empty_range k)))
      by (unfold merged; rewrite E; reflexivity).
    rewrite <- M in *.
    assert (NK : BNumKey hist (r_key (merged q k))) by (rewrite merged_key; exact NK1).
    destruct (brange_int_spec hist st OK _ lo hi L H BL BH AI NK) as [t [HT S]].
    exists t. split; [exact HT|]. intro x. rewrite S, merged_key, E. split.
    + intros [b [B [n [I C]]]] c [<-|[<-|[]]];
        apply (sat_int hist); auto; exists b; split; auto; exists n; split; auto;
        rewrite CMP in C; apply andb_true_iff in C; tauto.
    + intro A.
      pose proof (A _ (or_introl eq_refl)) as S1. pose proof (A _ (or_intror (or_introl eq_refl))) as S2.
      apply (sat_int hist) in S1; auto. apply (sat_int hist) in S2; auto.
      destruct S1 as [b1 [B1 [n1 [J1 C1]]]]. destruct S2 as [b2 [B2 [n2 [J2 C2]]]].
      assert (EQ : blk_attrs b1 = blk_attrs b2).
      { destruct B1 as [X1 [X2 X3]], B2 as [Y1 [Y2 Y3]]. apply CONS; auto. congruence. }
      rewrite <- EQ in J2.
      assert (n1 = n2).
      { apply dec_inj. destruct B1 as [X1 [X2 _]].
        apply (single_valued_eq k (blk_attrs b1)); auto. apply (SV b1 X1 X2). }
      subst n2. exists b1. split; auto. exists n1. split; auto. rewrite CMP, C1, C2. reflexivity.
Qed.

(* C19_block_search_exact_partial.  PROVED HERE: every history of Index calls (failed calls and
   consistent re-indexing included), every query that is a non-empty conjunction, in any order
   and number, of
     key = 'string'   key CONTAINS 'string'   (key an application key)
     key EXISTS (dotted key, block.height included)
     key = integer   key < <= > >= integer   (block.height included)
   where the range conditions on one key are one condition, or one lower and one upper bound
   on a key that is single-valued in every indexed block (RangeShape: there LookForRanges
   merges the bounds into one interval that still is their conjunction): LookForRanges for
   arbitrary queries (lfr_char), the two loops of Search (ranges first, first-run / empty-set
   short-cuts), the primary-key scan for block.height = H (F47), Has-filter and sort included.
   The excluded queries are the decidable known classes 25, 34, 36, 37, 38, plus integer
   conditions on keys that carry digit-free values (matcher and indexer both find nothing there;
   monitored by the harness only).
   PARTIAL because of ONE missing lemma: that [dec z] is NumOK (matcher and strconv.ParseInt
   both read z back) for every 0 <= z <= MaxInt64.  Without it, "the indexed values under the
   keys of integer conditions are canonical decimals" stays the semantic premise BNumKey (on
   heights too) instead of a syntactic one; the harness checks it on every generated value
   (observable 42 and the model comparison 41). *)
Theorem C19_block_search_exact_partial : forall (hist : list block) (q : query),
  BConsistent hist ->
  q <> [] ->
  (forall c, In c q -> bwf_cond hist c) ->
  RangeShape hist q ->
  exists hs, bsearch (brun hist) q = BOk hs /\ StronglySorted Z.lt hs /\
    forall h, In h hs <->
      exists b, In b hist /\ index_ok b = true /\ b_height b = h /\
                matches q (blk_events b) = MTrue.
Proof.
  intros hist q CONS NE WF SH. set (st := brun hist).
  assert (OK : BStoreOK hist st) by apply brun_ok.
  set (ks := range_keys q).
  set (oq := filter (fun c => negb (is_range_op (c_op c))) q).
  destruct (map_some _ (fun k => brange_hits st (merged q k))
                     (fun k t => forall x, In x t <-> forall c, In c (ck q k) -> Sat hist c x) ks)
    as [ts1 [E1 F1]].
  { intros k I. apply (merged_hits hist st OK CONS q WF SH k I). }
  destruct (map_some _ (bcond_hits st)
                     (fun c t => forall x, In x t <-> Sat hist c x) oq) as [ts2 [E2 F2]].
  { intros c I. apply filter_In in I as [I R]. apply (bcond_hits_spec hist st OK c); auto.
    unfold is_range. apply negb_true_iff. exact R. }
  (* every condition of q is a range condition on a key of ks, or in oq *)
  assert (RALL : forall x, (forall k, In k ks -> forall c, In c (ck q k) -> Sat hist c x) <->
                           (forall c, In c q -> is_range c = true -> Sat hist c x)).
  { intro x. split.
    - intros A c I R. apply (A (c_key c)).
      + unfold ks, range_keys. apply sdedup_In, in_map, filter_In. auto.
      + apply filter_In. split; auto. unfold on_key. rewrite R, String.eqb_refl. reflexivity.
    - intros A k _ c I. apply filter_In in I as [I O]. unfold on_key in O.
      apply andb_true_iff in O as [O _]. auto. }
  assert (OALL : forall x, (forall c, In c oq -> Sat hist c x) <->
                           (forall c, In c q -> is_range c = false -> Sat hist c x)).
  { intro x. unfold oq, is_range. split.
    - intros A c I R. apply A. apply filter_In. rewrite R. auto.
    - intros A c I. apply filter_In in I as [I R]. apply negb_true_iff in R. auto. }
  assert (NN : ts1 ++ ts2 <> []).
  { intro X. apply app_eq_nil in X as [X1 X2]. rewrite X1 in F1. rewrite X2 in F2.
    apply forall2_nil_r in F1. apply forall2_nil_r in F2.
    destruct q as [|c q']; [contradiction|]. destruct (is_range c) eqn:R.
    - assert (I : In (c_key c) ks).
      { unfold ks, range_keys. apply sdedup_In, in_map, filter_In. simpl; auto. }
      rewrite F1 in I. destruct I.
    - assert (I : In c oq).
      { unfold oq. apply filter_In. unfold is_range in R. rewrite R. simpl; auto. }
      rewrite F2 in I. destruct I. }
  destruct (bsteps_false (ts1 ++ ts2) NN) as [f' [R S]].
  rewrite map_app, bsteps_app in R.
  unfold bsearch. fold st. rewrite (lfr_char q). fold ks. rewrite map_map, E1. fold oq. rewrite E2.
  destruct (brun_steps (map Some ts1) false []) as [[i1 f1]|]; [|discriminate R]. rewrite R.
  eexists. split; [reflexivity|]. split; [apply zsort_sorted|].
  intro h. rewrite zsort_in, filter_In, S.
  assert (ALL : (forall t, In t (ts1 ++ ts2) -> In h t) <-> (forall c, In c q -> Sat hist c h)).
  { split.
    - intros A c I. destruct (is_range c) eqn:RC.
      + apply (proj1 (RALL h)); auto.
        apply (proj1 (forall2_all _ (fun k x => forall c, In c (ck q k) -> Sat hist c x) _ _ h F1)).
        intros t J. apply A, in_app_iff. auto.
      + apply (proj1 (OALL h)); auto.
        apply (proj1 (forall2_all _ (Sat hist) _ _ h F2)).
        intros t J. apply A, in_app_iff. auto.
    - intros A t J. apply in_app_iff in J as [J|J].
      + revert t J.
        apply (proj2 (forall2_all _ (fun k x => forall c, In c (ck q k) -> Sat hist c x) _ _ h F1)).
        apply (proj2 (RALL h)). auto.
      + revert t J. apply (proj2 (forall2_all _ (Sat hist) _ _ h F2)).
        apply (proj2 (OALL h)). auto. }
  rewrite ALL. split.
  - intros [A _]. destruct q as [|c0 q'] eqn:Q; [contradiction|]. rewrite <- Q in *.
    assert (I0 : In c0 q) by (rewrite Q; left; reflexivity).
    destruct (A c0 I0) as [b0 [[B1 [B2 B3]] _]].
    exists b0. repeat split; auto.
    rewrite matches_nonnil by apply blk_events_nonnil. apply match_conds_all. intros c I.
    destruct (A c I) as [b [[C1 [C2 C3]] M]].
    unfold blk_events in *. rewrite (CONS b0 b B1 B2 C1 C2) by congruence. exact M.
  - intros [b [B1 [B2 [B3 M]]]]. split.
    + intros c I. exists b. split; [unfold At; auto|].
      rewrite matches_nonnil in M by apply blk_events_nonnil.
      apply (proj1 (match_conds_all q (blk_events b)) M). exact I.
    + apply (bhas_spec hist st h OK). exists b. auto.
Qed.

Print Assumptions C19_block_indexed_once.
Print Assumptions C19_block_search_exact_partial.

(* ------------------------------------------------------------------ concrete instances *)

Local Open Scope string_scope.

Definition ev1 (typ : string) (attrs : list (string * string)) : event :=
  {| e_type := typ;
     e_attrs := map (fun kv => {| a_key := fst kv; a_val := snd kv; a_index := true |}) attrs |}.
Definition blk (h : Z) (bg en : list event) : block := {| b_height := h; b_begin := bg; b_end := en |}.

Definition bfound (h : Z) (r : bres) : bool := match r with BOk hs => zmem h hs | _ => false end.
Definition bsat (q : query) (b : block) : bool := mres_eqb (matches q (blk_events b)) MTrue.

(* non-vacuity: three blocks (one attribute in BeginBlock, one in EndBlock, height 2 indexed
   twice with the same events, one block rejected for the reserved key) *)
Definition bnv_b1 := blk 1 [ev1 "a" [("y", "p"); ("y", "q")]] [ev1 "b" [("x", "7")]]%string.
Definition bnv_b2 := blk 2 [ev1 "a" [("y", "p")]] [ev1 "b" [("x", "5")]]%string.
Definition bnv_b3 := blk 3 [ev1 "a" [("y", "p")]] [ev1 "block" [("height", "1")]]%string.
Definition bnv_b4 := blk 4 [ev1 "a" [("y", "q")]] [ev1 "b" [("x", "9")]]%string.
Definition bnv_hist : list block := [bnv_b1; bnv_b2; bnv_b3; bnv_b2; bnv_b4].
Definition bnv_q : query :=
  [cnd "a.y" OpEq (OStr "p"); cnd "b.x" OpGt (OInt 5); cnd "block.height" OpLe (OInt 3);
   cnd "a.y" OpContains (OStr "q"); cnd "b.x" OpExists ONone; cnd "block.height" OpEq (OInt 1);
   cnd "b.x" OpLe (OInt 7)]%string.

Example C19_block_indexed_once_nonvacuous :
  In (PK 2, 2) (brun bnv_hist) /\
  In (EK "a.y" "q" 1 BeginTyp, 1) (brun bnv_hist) /\
  In (EK "b.x" "5" 2 EndTyp, 2) (brun bnv_hist) /\
  List.length (brun bnv_hist) = 10%nat /\
  index_ok bnv_b3 = false /\ bhas (brun bnv_hist) 3 = false /\ bhas (brun bnv_hist) 4 = true.
Proof. vm_compute. intuition. Qed.

Lemma bnv_numok : forall v, In v ["1"; "2"; "4"; "5"; "7"; "9"]%string -> NumOK v.
Proof.
  intros v [<-|[<-|[<-|[<-|[<-|[<-|[]]]]]]];
    [exists 1 | exists 2 | exists 4 | exists 5 | exists 7 | exists 9]; vm_compute; auto.
Qed.

Example C19_block_search_exact_nonvacuous :
  BConsistent bnv_hist /\ bnv_q <> [] /\
  (forall c, In c bnv_q -> bwf_cond bnv_hist c) /\ RangeShape bnv_hist bnv_q /\
  bsearch (brun bnv_hist) bnv_q = BOk [1] /\
  bsat bnv_q bnv_b1 = true /\ bsat bnv_q bnv_b2 = false /\ bsat bnv_q bnv_b4 = false /\
  bsearch (brun bnv_hist) [cnd "a.y" OpEq (OStr "p"); cnd "b.x" OpLt (OInt 9)]%string = BOk [1; 2].
Proof.
  split.
  { intros b1 b2 I1 O1 I2 O2 E.
    destruct I1 as [<-|[<-|[<-|[<-|[<-|[]]]]]]; try discriminate O1;
    destruct I2 as [<-|[<-|[<-|[<-|[<-|[]]]]]]; try discriminate O2;
    try reflexivity; vm_compute in E; discriminate E. }
  split; [discriminate|].
  split.
  { assert (NK : forall k, In k ["block.height"; "b.x"]%string -> BNumKey bnv_hist k).
    { intros k [<-|[<-|[]]] b v [<-|[<-|[<-|[<-|[<-|[]]]]]] O I; try discriminate O;
        vm_compute in I; apply bnv_numok; simpl; tauto. }
    intros c [<-|[<-|[<-|[<-|[<-|[<-|[<-|[]]]]]]]]; unfold bwf_cond; simpl;
      try discriminate; try reflexivity; apply NK; simpl; tauto. }
  split.
  { intros k I. vm_compute in I. destruct I as [<-|[<-|[]]].
    - right. exists (cnd "b.x" OpGt (OInt 5)), (cnd "b.x" OpLe (OInt 7)).
      split; [reflexivity|]. split; [reflexivity|].
      intros b [<-|[<-|[<-|[<-|[<-|[]]]]]] O; try discriminate O; vm_compute; lia.
    - left. eexists. reflexivity. }
  vm_compute. auto 10.
Qed.

(* ---- the original Search (F47) and the known classes, exhibited on the models (each also
   reproduced on the real code by a directed case of the harness) ---- *)

(* F47: block.height = H made the original Search ignore every other condition *)
Example C19_block_original_height_shortcut_refuted :
  let st := brun bnv_hist in
  let q := [cnd "block.height" OpEq (OInt 2); cnd "a.y" OpEq (OStr "q")]%string in
  bsearch_original st q = BOk [2] /\ bsat q bnv_b2 = false /\ bsearch st q = BOk [] /\
  bsearch_original st [cnd "block.height" OpEq (OStr "zz")]%string = BPanic /\
  bsearch st [cnd "block.height" OpEq (OStr "zz")]%string = BOk [].
Proof. vm_compute. auto. Qed.

(* 25: range conditions on one key are merged, the later bound wins *)
Example C19_block_search_merged_ranges_refuted :
  let b := blk 1 [ev1 "a" [("x", "3")]]%string [] in
  let q := [cnd "a.x" OpGt (OInt 5); cnd "a.x" OpGt (OInt 1)]%string in
  bsearch (brun [b]) q = BOk [1] /\ bsat q b = false.
Proof. vm_compute. auto. Qed.

(* 34: block.height compared as a string *)
Example C19_block_search_height_as_string_refuted :
  let b := blk 5 [] [] in
  bsearch (brun [b]) [cnd "block.height" OpEq (OStr "5")]%string = BOk [] /\
  bsat [cnd "block.height" OpEq (OStr "5")]%string b = true /\
  bsearch (brun [b]) [cnd "block.height" OpContains (OStr "5")]%string = BOk [] /\
  bsat [cnd "block.height" OpContains (OStr "5")]%string b = true.
Proof. vm_compute. auto. Qed.

(* 36: TIME / DATE operands never find anything; mixed with an integer bound they compare
   Unix seconds with integers, or panic *)
Example C19_block_search_time_refuted :
  let b := blk 1 [ev1 "a" [("y", "2013-05-03T14:45:00Z"); ("x", "7")]]%string [] in
  bsearch (brun [b]) [cnd "a.y" OpGe (OTime 1367592300)]%string = BOk [] /\
  bsat [cnd "a.y" OpGe (OTime 1367592300)]%string b = true /\
  bsearch (brun [b]) [cnd "a.x" OpGt (OInt 5); cnd "a.x" OpLt (OTime 1367592300)]%string = BOk [1] /\
  bsat [cnd "a.x" OpGt (OInt 5); cnd "a.x" OpLt (OTime 1367592300)]%string b = false /\
  bsearch (brun [b]) [cnd "a.x" OpGt (OInt 5); cnd "a.x" OpLe (OTime 1367592300)]%string = BPanic.
Proof. vm_compute. auto. Qed.

(* 37: "12." is 12 for the matcher, not found by "= 12"; "-5" is 5 for the matcher, -5 for
   the indexer *)
Example C19_block_search_numeric_refuted :
  let b := blk 1 [ev1 "a" [("x", "12.")]]%string [ev1 "a" [("z", "-5")]]%string in
  bsearch (brun [b]) [cnd "a.x" OpEq (OInt 12)]%string = BOk [] /\
  bsat [cnd "a.x" OpEq (OInt 12)]%string b = true /\
  bsearch (brun [b]) [cnd "a.z" OpLt (OInt 0)]%string = BOk [1] /\
  bsat [cnd "a.z" OpLt (OInt 0)]%string b = false.
Proof. vm_compute. auto. Qed.

(* 38: EXISTS on a key without '.' *)
Example C19_block_search_exists_undotted_refuted :
  let b := blk 1 [ev1 "a" [("y", "p")]]%string [] in
  bsearch (brun [b]) [cnd "a" OpExists ONone]%string = BOk [] /\
  bsat [cnd "a" OpExists ONone]%string b = true /\
  bsearch (brun [b]) [cnd "b" OpExists ONone]%string = BOk [] /\
  bsat [cnd "b" OpExists ONone]%string b = true.
Proof. vm_compute. auto. Qed.
