(* C19 (search half, blocks) — proofs about the model of the kv block indexer (BlockModel.v)
   against the query matcher (Query.v). *)
From Coq Require Import String Ascii List ZArith Bool Lia Sorted.
From TM Require Import C19.Query C19.SearchModel C19.SearchProofs C19.BlockModel.
Import ListNotations.
Open Scope Z_scope.

(* ------------------------------------------------------------------ keys *)

Lemma bkey_eqb_eq : forall a b, bkey_eqb a b = true <-> a = b.
Proof.
  destruct a as [h|ck v h t], b as [h'|ck' v' h' t']; simpl; split; intro E;
    try discriminate; try congruence.
  - apply Z.eqb_eq in E. congruence.
  - inversion E. apply Z.eqb_refl.
  - rewrite !andb_true_iff in E. destruct E as [[[A B] C] D].
    apply String.eqb_eq in A. apply String.eqb_eq in B. apply String.eqb_eq in D.
    apply Z.eqb_eq in C. congruence.
  - inversion E; subst. rewrite !String.eqb_refl, Z.eqb_refl. reflexivity.
Qed.

Lemma bkey_eq_dec : forall a b : bkey, {a = b} + {a <> b}.
Proof. decide equality; try apply string_dec; apply Z.eq_dec. Qed.

(* the height a key carries *)
Definition kh (k : bkey) : Z := match k with PK h => h | EK _ _ h _ => h end.

Lemma bkeys_kh : forall b k, In k (bkeys b) -> kh k = b_height b.
Proof.
  intros b k [<-|I]; [reflexivity|].
  apply in_app_iff in I as [I|I]; apply in_map_iff in I as [tv [<- _]]; reflexivity.
Qed.

Lemma bkeys_in : forall b k, In k (bkeys b) <->
  k = PK (b_height b) \/
  (exists ck v, In (ck, v) (indexed_of (b_begin b)) /\ k = EK ck v (b_height b) BeginTyp) \/
  (exists ck v, In (ck, v) (indexed_of (b_end b)) /\ k = EK ck v (b_height b) EndTyp).
Proof.
  intros b k. unfold bkeys. simpl. rewrite in_app_iff, !in_map_iff. split.
  - intros [E|[[[ck v] [E I]]|[[ck v] [E I]]]]; auto.
    + right; left. exists ck, v. auto.
    + right; right. exists ck, v. auto.
  - intros [E|[[ck [v [I E]]]|[ck [v [I E]]]]]; auto.
    + right; left. exists (ck, v). auto.
    + right; right. exists (ck, v). auto.
Qed.

(* ------------------------------------------------------------------ what a history leaves in the store *)

Lemma bset_fold : forall h keys st k x,
  In (k, x) (fold_left (fun s k => bset k h s) keys st) <->
  (In k keys /\ x = h) \/ (~ In k keys /\ In (k, x) st).
Proof.
  intros h keys. induction keys as [|a keys IH]; intros st k x; simpl; [tauto|].
  rewrite IH. unfold bset. simpl. rewrite filter_In. simpl. rewrite negb_true_iff.
  destruct (bkey_eqb k a) eqn:K.
  - apply bkey_eqb_eq in K. subst k. split.
    + intros [[A B]|[A [B|[_ B]]]]; auto. injection B as B; left; auto. discriminate.
    + intros [[A B]|[A B]]; [|tauto].
      destruct (in_dec bkey_eq_dec a keys) as [I|I]; [left; auto|].
      right; split; auto. left; congruence.
  - assert (N : a <> k) by (intro X; subst k; rewrite (proj2 (bkey_eqb_eq _ _) eq_refl) in K; discriminate).
    split.
    + intros [[A B]|[A [B|[B _]]]]; [left; auto | injection B as B; congruence | right; tauto].
    + intros [[[A|A] B]|[A B]]; [congruence | left; auto | right; split; [tauto| right; tauto]].
Qed.

Lemma bset_fold_nodup : forall h keys st,
  NoDup (map fst st) -> NoDup (map fst (fold_left (fun s k => bset k h s) keys st)).
Proof.
  intros h keys. induction keys as [|a keys IH]; intros st N; simpl; [exact N|].
  apply IH. unfold bset. simpl. constructor.
  - intro X. apply in_map_iff in X as [[k x] [E X]]. apply filter_In in X as [_ X].
    simpl in E, X. subst k. rewrite (proj2 (bkey_eqb_eq _ _) eq_refl) in X. discriminate.
  - clear IH. induction st as [|e st IH]; simpl; [constructor|].
    inversion N; subst. destruct (negb (bkey_eqb (fst e) a)); simpl; auto.
    constructor; auto. intro X. apply H1. apply in_map_iff in X as [y [E X]].
    apply filter_In in X as [X _]. apply in_map_iff. exists y; auto.
Qed.

(* the store holds exactly the keys of the blocks whose Index returned nil, each once, each
   with the block's height as value *)
Record BStoreOK (hist : list block) (st : bstore) : Prop := {
  bok_in : forall k x, In (k, x) st <->
             exists b, In b hist /\ index_ok b = true /\ x = b_height b /\ In k (bkeys b);
  bok_nodup : NoDup (map fst st) }.

Lemma bindex_step : forall hist st b,
  BStoreOK hist st -> BStoreOK (hist ++ [b]) (fst (bindex st b)).
Proof.
  intros hist st b [I N]. unfold bindex. destruct (index_ok b) eqn:OK; cbn [fst].
  - constructor; [|apply bset_fold_nodup; exact N].
    intros k x. rewrite bset_fold. split.
    + intros [[A B]|[A B]].
      * exists b. rewrite in_app_iff. simpl. auto.
      * apply I in B as [b' [B1 [B2 [B3 B4]]]]. exists b'. rewrite in_app_iff. auto.
    + intros [b' [B1 [B2 [B3 B4]]]]. apply in_app_iff in B1 as [B1|[<-|[]]]; [|left; auto].
      destruct (in_dec bkey_eq_dec k (bkeys b)) as [J|J].
      * left. split; auto. rewrite B3, <- (bkeys_kh _ _ B4). apply bkeys_kh; exact J.
      * right. split; auto. apply I. exists b'. auto.
  - constructor; [|exact N]. intros k x. rewrite I. split.
    + intros [b' [B1 B2]]. exists b'. rewrite in_app_iff. auto.
    + intros [b' [B1 [B2 B3]]]. apply in_app_iff in B1 as [B1|[<-|[]]]; [|congruence].
      exists b'. auto.
Qed.

Lemma brun_ok_gen : forall hist pre st,
  BStoreOK pre st -> BStoreOK (pre ++ hist) (fold_left (fun st b => fst (bindex st b)) hist st).
Proof.
  induction hist as [|b hist IH]; intros pre st OK; simpl.
  - rewrite app_nil_r. exact OK.
  - change (b :: hist) with ([b] ++ hist). rewrite app_assoc. apply IH. apply bindex_step. exact OK.
Qed.

Lemma brun_ok : forall hist, BStoreOK hist (brun hist).
Proof.
  intro hist. apply (brun_ok_gen hist [] []). constructor; simpl; [|constructor].
  intros k x; split; [tauto | intros [b [[] _]]].
Qed.

Lemma bhas_spec : forall hist st h, BStoreOK hist st ->
  (bhas st h = true <-> exists b, In b hist /\ index_ok b = true /\ b_height b = h).
Proof.
  intros hist st h [I _]. unfold bhas. rewrite existsb_exists. split.
  - intros [[k x] [A B]]. simpl in B. apply bkey_eqb_eq in B. subst k.
    apply I in A as [b [B1 [B2 [B3 B4]]]]. exists b. split; auto. split; auto.
    apply bkeys_kh in B4. simpl in B4. auto.
  - intros [b [B1 [B2 B3]]]. exists (PK h, h). split.
    + apply I. exists b. repeat split; auto. left. congruence.
    + simpl. apply Z.eqb_refl.
Qed.

(* C19_block_indexed_once: after ANY history of Index calls (re-indexing included) the store
   holds every key once; a key is in the store, with value h, exactly when it is one of the keys
   of a block of height h whose Index returned nil (its primary key, or
   type.attr|value|h|begin_block/end_block of an attribute with Index=true); Has(h) holds
   exactly for the heights of these blocks. *)
Theorem C19_block_indexed_once : forall hist : list block,
  let st := brun hist in
  NoDup (map fst st) /\
  (forall k x, In (k, x) st <->
     exists b, In b hist /\ index_ok b = true /\ x = b_height b /\ In k (bkeys b)) /\
  (forall h, bhas st h = true <-> exists b, In b hist /\ index_ok b = true /\ b_height b = h).
Proof.
  intros hist st. pose proof (brun_ok hist) as OK. destruct OK as [I N].
  split; [exact N|]. split; [exact I|]. intro h. apply (bhas_spec hist). constructor; assumption.
Qed.

(* ------------------------------------------------------------------ the attributes of a block *)

Lemma indexed_of_in : forall evs ck v,
  In (ck, v) (indexed_of evs) -> exists i, In (ck, v, i) (all_attrs evs).
Proof.
  unfold indexed_of. intros evs ck v H. apply in_map_iff in H as [[[ck' v'] i] [E I]].
  simpl in E. injection E as -> ->. apply filter_In in I as [I _]. eauto.
Qed.

Lemma ok_not_reserved : forall b ck v, index_ok b = true ->
  In (ck, v) (indexed_of (b_begin b)) \/ In (ck, v) (indexed_of (b_end b)) ->
  ck <> BlockHeightKey.
Proof.
  intros b ck v OK I E. subst ck. unfold index_ok in OK.
  apply negb_true_iff, orb_false_iff in OK as [O1 O2].
  destruct I as [I|I]; apply indexed_of_in in I as [i I].
  - assert (R : reserved (b_begin b) = true); [|congruence].
    apply existsb_exists. exists (BlockHeightKey, v, i). split; auto.
  - assert (R : reserved (b_end b) = true); [|congruence].
    apply existsb_exists. exists (BlockHeightKey, v, i). split; auto.
Qed.

Lemma blk_attrs_in : forall b ck v, In (ck, v) (blk_attrs b) <->
  In (ck, v) (indexed_of (b_begin b)) \/ In (ck, v) (indexed_of (b_end b)) \/
  (ck = BlockHeightKey /\ v = dec (b_height b)).
Proof.
  unfold blk_attrs. intros. rewrite !in_app_iff. simpl. split.
  - intros [A|[A|[A|[]]]]; auto. injection A as <- <-. auto.
  - intros [A|[A|[-> ->]]]; auto.
Qed.

Lemma bhk_attr : forall b v, index_ok b = true ->
  (In (BlockHeightKey, v) (blk_attrs b) <-> v = dec (b_height b)).
Proof.
  intros b v OK. rewrite blk_attrs_in. split.
  - intros [A|[A|[_ A]]]; auto; exfalso; eapply ok_not_reserved; eauto.
  - intros ->. auto.
Qed.

Lemma blk_events_nonnil : forall b, blk_events b <> [].
Proof.
  intro b. unfold blk_events, group. destruct (map fst (blk_attrs b)) eqn:E.
  - apply map_eq_nil in E. unfold blk_attrs in E.
    apply app_eq_nil in E as [_ E]. apply app_eq_nil in E as [_ E]. discriminate.
  - simpl. discriminate.
Qed.

Lemma match_cond_group : forall c l, c_op c <> OpExists ->
  match_cond c (group l) = match_values (vals_of (c_key c) l) (c_op c) (c_arg c).
Proof.
  intros c l NE. unfold match_cond. rewrite ev_lookup_group.
  destruct (smem (c_key c) (map fst l)) eqn:S.
  - destruct (c_op c); try reflexivity. contradiction.
  - rewrite (vals_nil _ _ S). destruct (c_op c); try reflexivity. contradiction.
Qed.

Lemma match_cond_group_exists : forall c l, c_op c = OpExists ->
  has_char "."%char (c_key c) = true ->
  (match_cond c (group l) = MTrue <-> exists v, In (c_key c, v) l).
Proof.
  intros c l E DOT. unfold match_cond. rewrite E, DOT, ev_lookup_group, <- smem_fst.
  destruct (smem (c_key c) (map fst l)); simpl; split; auto; discriminate.
Qed.

(* ------------------------------------------------------------------ the loops of Search *)

Lemma zmem_In : forall x l, zmem x l = true <-> In x l.
Proof.
  induction l as [|y l IH]; simpl; [split; [discriminate | tauto]|].
  rewrite orb_true_iff, IH, Z.eqb_eq. split; intros [E|E]; auto.
Qed.

Lemma bsteps_app : forall l1 l2 i f,
  brun_steps (l1 ++ l2) i f =
  match brun_steps l1 i f with Some (i', f') => brun_steps l2 i' f' | None => None end.
Proof.
  induction l1 as [|a l1 IH]; intros l2 i f; simpl; [reflexivity|].
  destruct i.
  - destruct (znil f); [apply IH|]. destruct a; [apply IH | reflexivity].
  - destruct a; [apply IH | reflexivity].
Qed.

Lemma bsteps_true : forall ts f, exists f',
  brun_steps (map Some ts) true f = Some (true, f') /\
  forall x, In x f' <-> In x f /\ forall t, In t ts -> In x t.
Proof.
  induction ts as [|t ts IH]; intro f; simpl.
  - exists f. split; auto. intro x. split; [intro; split; [auto | intros ? []] | tauto].
  - destruct f as [|a f]; simpl.
    + destruct (IH []) as [f' [E S]]. exists f'. split; auto. intro x. rewrite S. simpl. tauto.
    + set (f1 := if znil t then t else filter (fun h => zmem h t) (a :: f)).
      destruct (IH f1) as [f' [E S]]. exists f'. split; auto. intro x. rewrite S.
      assert (F1 : In x f1 <-> In x (a :: f) /\ In x t).
      { unfold f1. destruct t as [|b t]; simpl znil; cbv iota.
        - simpl. tauto.
        - rewrite filter_In, zmem_In. tauto. }
      rewrite F1. split.
      * intros [[A B] C]. split; auto. intros t' [<-|I]; auto.
      * intros [A B]. split; [split|]; auto.
Qed.

Lemma bsteps_false : forall ts, ts <> [] -> exists f',
  brun_steps (map Some ts) false [] = Some (true, f') /\
  forall x, In x f' <-> forall t, In t ts -> In x t.
Proof.
  intros [|t ts] NE; [contradiction|]. simpl.
  destruct (bsteps_true ts t) as [f' [E S]]. exists f'. split; auto. intro x. rewrite S. split.
  - intros [A B] t' [<-|I]; auto.
  - intro H. split; auto.
Qed.

Lemma map_some : forall (A : Type) (g : A -> option (list Z)) (P : A -> list Z -> Prop) (l : list A),
  (forall c, In c l -> exists t, g c = Some t /\ P c t) ->
  exists ts, map g l = map Some ts /\ Forall2 P l ts.
Proof.
  intros A g P. induction l as [|c l IH]; intro H.
  - exists []. split; [reflexivity | constructor].
  - destruct (H c (or_introl eq_refl)) as [t [E Pt]].
    destruct IH as [ts [E' F]]; [intros; apply H; right; assumption|].
    exists (t :: ts). simpl. rewrite E, E'. split; [reflexivity | constructor; auto].
Qed.

Lemma forall2_all : forall (A : Type) (S : A -> Z -> Prop) (l : list A) (ts : list (list Z)) x,
  Forall2 (fun c t => forall y, In y t <-> S c y) l ts ->
  ((forall t, In t ts -> In x t) <-> (forall c, In c l -> S c x)).
Proof.
  intros A S l ts x F. induction F as [|c t l ts P F IH]; simpl; [tauto|]. split.
  - intros H c' [<-|I]; [apply P, H; auto | apply IH; auto].
  - intros H t' [<-|I]; [apply P, H; auto | apply IH; auto].
Qed.

(* ------------------------------------------------------------------ sort *)

Lemma zinsert_in : forall x y l, In x (zinsert y l) <-> x = y \/ In x l.
Proof.
  induction l as [|a l IH]; simpl; [intuition|].
  destruct (Z.ltb_spec y a); simpl; [intuition|].
  destruct (Z.eqb_spec y a); simpl; [subst; intuition|]. rewrite IH. intuition.
Qed.

Lemma zinsert_sorted : forall y l, StronglySorted Z.lt l -> StronglySorted Z.lt (zinsert y l).
Proof.
  induction l as [|a l IH]; intro S; simpl; [repeat constructor|].
  inversion S as [|? ? S' F]; subst.
  destruct (Z.ltb_spec y a).
  - constructor; auto. constructor; auto.
    rewrite Forall_forall in *. intros z I. specialize (F z I). lia.
  - destruct (Z.eqb_spec y a); [exact S|]. constructor; auto.
    rewrite Forall_forall in *. intros z I. apply zinsert_in in I as [->|I]; [lia | auto].
Qed.

Lemma zsort_in : forall x l, In x (zsort l) <-> In x l.
Proof.
  induction l as [|a l IH]; simpl; [tauto|]. rewrite zinsert_in, IH. intuition.
Qed.

Lemma zsort_sorted : forall l, StronglySorted Z.lt (zsort l).
Proof. induction l; simpl; [constructor | apply zinsert_sorted; assumption]. Qed.

(* ------------------------------------------------------------------ LookForRanges with one range condition per key *)

Definition is_range (c : cond) : bool := is_range_op (c_op c).
Definition single (c : cond) : qrange := apply_cond c (empty_range (c_key c)).

Lemma apply_cond_key : forall c r, r_key (apply_cond c r) = r_key r.
Proof. intros c r. unfold apply_cond. destruct (c_op c); reflexivity. Qed.

Lemma upd_range_fresh : forall c rs, (forall r, In r rs -> r_key r <> c_key c) ->
  upd_range c rs = rs ++ [single c].
Proof.
  induction rs as [|r rs IH]; intro F; simpl; [reflexivity|].
  destruct (String.eqb_spec (r_key r) (c_key c)) as [E|_]; [exfalso; exact (F r (or_introl eq_refl) E)|].
  f_equal. apply IH. intros; apply F; right; assumption.
Qed.

Lemma lfr_gen : forall q rs,
  NoDup (map c_key (filter is_range q)) ->
  (forall r c, In r rs -> In c (filter is_range q) -> r_key r <> c_key c) ->
  fold_left (fun rs c => if is_range_op (c_op c) then upd_range c rs else rs) q rs =
  rs ++ map single (filter is_range q).
Proof.
  induction q as [|a q IH]; intros rs ND F; simpl; [rewrite app_nil_r; reflexivity|].
  simpl in ND, F. unfold is_range in ND, F |- *. destruct (is_range_op (c_op a)) eqn:R.
  - simpl in ND. inversion ND as [|? ? NI ND']; subst.
    rewrite upd_range_fresh by (intros r I; apply (F r a I); left; reflexivity).
    rewrite IH; [simpl; rewrite <- app_assoc; reflexivity | exact ND' |].
    intros r c I J. apply in_app_iff in I as [I|[<-|[]]].
    + apply (F r c I). right; exact J.
    + unfold single. rewrite apply_cond_key. simpl. intro E. apply NI. rewrite E.
      apply in_map. exact J.
  - apply IH; auto.
Qed.

Lemma lfr_single : forall q, NoDup (map c_key (filter is_range q)) ->
  look_for_ranges q = map single (filter is_range q).
Proof.
  intros q ND. unfold look_for_ranges. rewrite (lfr_gen q [] ND); [reflexivity | intros r c []].
Qed.

(* ------------------------------------------------------------------ one condition = one scan *)

Definition bvals (k : string) (b : block) : list string := vals_of k (blk_attrs b).

(* the indexed values integer conditions on k are compared with are decimal renderings on
   which the matcher's and the indexer's readings agree *)
Definition BNumKey (hist : list block) (k : string) : Prop :=
  forall b v, In b hist -> index_ok b = true -> In v (bvals k b) -> NumOK v.

(* the query sub-language of the exactness theorem (per condition) *)
Definition bwf_cond (hist : list block) (c : cond) : Prop :=
  match c_op c, c_arg c with
  | OpEq, OStr _ => c_key c <> BlockHeightKey
  | OpContains, OStr _ => c_key c <> BlockHeightKey
  | OpExists, _ => has_char "."%char (c_key c) = true
  | (OpEq | OpLe | OpGe | OpLt | OpGt), OInt _ => BNumKey hist (c_key c)
  | _, _ => False
  end.

Section BHits.
Variables (hist : list block) (st : bstore).
Hypothesis OK : BStoreOK hist st.

(* block b's Index returned nil and b has height h *)
Definition At (h : Z) (b : block) : Prop := In b hist /\ index_ok b = true /\ b_height b = h.

Definition Sat (c : cond) (h : Z) : Prop :=
  exists b, At h b /\ match_cond c (blk_events b) = MTrue.

Lemma pk_in : forall h x, In (PK h, x) st <-> x = h /\ exists b, At h b.
Proof.
  intros h x. rewrite (bok_in _ _ OK). unfold At. split.
  - intros [b [B1 [B2 [B3 B4]]]]. apply bkeys_kh in B4. simpl in B4.
    split; [congruence|]. exists b. auto.
  - intros [-> [b [B1 [B2 B3]]]]. exists b. repeat split; auto. left. congruence.
Qed.

Lemma ek_in : forall ck v h typ x, In (EK ck v h typ, x) st ->
  ck <> BlockHeightKey /\ x = h /\ exists b, At h b /\ In (ck, v) (blk_attrs b).
Proof.
  intros ck v h typ x H. apply (bok_in _ _ OK) in H as [b [B1 [B2 [B3 B4]]]].
  apply bkeys_in in B4 as [E|[[ck' [v' [I E]]]|[ck' [v' [I E]]]]]; [discriminate| |];
    injection E as -> -> -> _.
  - split; [eapply ok_not_reserved; eauto|]. split; auto. exists b. unfold At.
    repeat split; auto. apply blk_attrs_in. auto.
  - split; [eapply ok_not_reserved; eauto|]. split; auto. exists b. unfold At.
    repeat split; auto. apply blk_attrs_in. auto.
Qed.

Lemma ek_ex : forall ck v h b, At h b -> ck <> BlockHeightKey -> In (ck, v) (blk_attrs b) ->
  exists typ, In (EK ck v h typ, h) st.
Proof.
  intros ck v h b [B1 [B2 B3]] NK I. apply blk_attrs_in in I as [I|[I|[E _]]]; [| |contradiction].
  - exists BeginTyp. apply (bok_in _ _ OK). exists b. repeat split; auto.
    apply bkeys_in. right; left. exists ck, v. subst h. auto.
  - exists EndTyp. apply (bok_in _ _ OK). exists b. repeat split; auto.
    apply bkeys_in. right; right. exists ck, v. subst h. auto.
Qed.

(* scan of orderedcode(k, s), k an application key *)
Lemma p2_hits : forall k s x, k <> BlockHeightKey ->
  (In x (map snd (bscan st (P2 k s))) <-> exists b, At x b /\ In (k, s) (blk_attrs b)).
Proof.
  intros k s x NK. rewrite in_map_iff. split.
  - intros [[key x'] [E I]]. simpl in E. subst x'. apply filter_In in I as [I P]. simpl in P.
    destruct key as [h|ck v h typ]; [discriminate|].
    apply andb_true_iff in P as [P1 P2]. apply String.eqb_eq in P1. apply String.eqb_eq in P2.
    subst ck v. apply ek_in in I as [_ [-> B]]. exact B.
  - intros [b [B I]]. destruct (ek_ex k s x b B NK I) as [typ J].
    exists (EK k s x typ, x). split; [reflexivity|]. apply filter_In. split; auto.
    simpl. rewrite !String.eqb_refl. reflexivity.
Qed.

(* scan of orderedcode(k), k an application key: the event keys of k *)
Lemma p1_fwd : forall k key x, k <> BlockHeightKey -> In (key, x) (bscan st (P1 k)) ->
  exists v typ, key = EK k v x typ /\ exists b, At x b /\ In (k, v) (blk_attrs b).
Proof.
  intros k key x NK H. apply filter_In in H as [I P]. simpl in P. destruct key as [h|ck v h typ].
  - apply String.eqb_eq in P. contradiction.
  - apply String.eqb_eq in P. subst ck. apply ek_in in I as [_ [-> B]]. exists v, typ. auto.
Qed.

Lemma p1_bwd : forall k v x b, k <> BlockHeightKey -> At x b -> In (k, v) (blk_attrs b) ->
  exists typ, In (EK k v x typ, x) (bscan st (P1 k)).
Proof.
  intros k v x b NK B I. destruct (ek_ex k v x b B NK I) as [typ J]. exists typ.
  apply filter_In. split; auto. simpl. apply String.eqb_refl.
Qed.

(* scan of orderedcode(block.height): the primary keys *)
Lemma p1h_fwd : forall key x, In (key, x) (bscan st (P1 BlockHeightKey)) ->
  key = PK x /\ exists b, At x b.
Proof.
  intros key x H. apply filter_In in H as [I P]. cbn [fst bmatch_prefix] in P.
  destruct key as [h|ck v h typ].
  - apply pk_in in I as [-> B]. auto.
  - apply String.eqb_eq in P. subst ck. apply ek_in in I as [N _]. contradiction.
Qed.

Lemma p1h_bwd : forall x b, At x b -> In (PK x, x) (bscan st (P1 BlockHeightKey)).
Proof.
  intros x b B. apply filter_In. split; [|reflexivity]. apply pk_in. split; eauto.
Qed.

(* ---- the matcher on a block of the history ---- *)

Lemma sat_vals : forall c h, c_op c <> OpExists ->
  (Sat c h <-> exists b, At h b /\ match_values (bvals (c_key c) b) (c_op c) (c_arg c) = MTrue).
Proof.
  intros c h NE. unfold Sat, blk_events, bvals.
  split; intros [b [B M]]; exists b; split; auto; rewrite match_cond_group in *; auto.
Qed.

Lemma sat_int : forall k op z h, op <> OpExists -> BNumKey hist k ->
  (Sat {| c_key := k; c_op := op; c_arg := OInt z |} h <->
   exists b, At h b /\ exists n, In (k, dec n) (blk_attrs b) /\ cmp_ok op n z = true).
Proof.
  intros k op z h NE NK. rewrite sat_vals by exact NE. cbn [c_key c_op c_arg].
  split; intros [b [B M]]; exists b; split; auto.
  - apply mv_int in M; [|intros v I; destruct B as [B1 [B2 _]]; apply (NK b v B1 B2 I)].
    destruct M as [n [M1 M2]]. exists n. split; auto. apply In_vals. exact M1.
  - apply mv_int; [intros v I; destruct B as [B1 [B2 _]]; apply (NK b v B1 B2 I)|].
    destruct M as [n [M1 M2]]. exists n. split; auto. apply In_vals. exact M1.
Qed.

(* ---- "=", CONTAINS, EXISTS ---- *)

Lemma bcond_hits_spec : forall c, bwf_cond hist c -> is_range c = false ->
  exists t, bcond_hits st c = Some t /\ forall x, In x t <-> Sat c x.
Proof.
  intros [k op arg] W NR. unfold bwf_cond in W. cbn [c_key c_op c_arg] in W.
  unfold is_range in NR. cbn [c_op] in NR. unfold bcond_hits. cbn [c_key c_op c_arg].
  destruct op; try discriminate NR.
  - (* = *)
    destruct arg as [s|z|t|]; try contradiction.
    + (* = 'string' *)
      eexists. split; [reflexivity|]. intro x. rewrite p2_hits by exact W.
      rewrite sat_vals by discriminate. cbn [c_key c_op c_arg].
      split; intros [b [B M]]; exists b; split; auto.
      * apply mv_eq_str, In_vals. exact M.
      * apply mv_eq_str, In_vals in M. exact M.
    + (* = integer *)
      destruct (String.eqb_spec k BlockHeightKey) as [->|NK].
      * eexists. split; [reflexivity|]. intro x. rewrite sat_int by (discriminate || exact W).
        rewrite in_map_iff. split.
        -- intros [[key x'] [E I]]. simpl in E. subst x'. apply filter_In in I as [I P].
           simpl in P. destruct key as [h|]; [|discriminate]. apply Z.eqb_eq in P. subst h.
           apply pk_in in I as [E [b B]]. subst x. exists b. split; auto. exists z. split.
           ++ destruct B as [_ [B2 B3]]. apply bhk_attr; [exact B2 | congruence].
           ++ simpl. apply Z.eqb_refl.
        -- intros [b [B [n [I C]]]]. simpl in C. apply Z.eqb_eq in C. subst n.
           pose proof B as [_ [B2 B3]]. apply bhk_attr in I; [|exact B2]. apply dec_inj in I.
           exists (PK z, x). split; [reflexivity|]. apply filter_In. split.
           ++ apply pk_in. split; [congruence|]. exists b. destruct B as [B1 _].
              unfold At. repeat split; auto.
           ++ simpl. apply Z.eqb_refl.
      * eexists. split; [reflexivity|]. intro x. rewrite p2_hits by exact NK.
        rewrite sat_int by (discriminate || exact W).
        split; intros [b [B M]]; exists b; split; auto.
        -- exists z. split; auto. simpl. apply Z.eqb_refl.
        -- destruct M as [n [I C]]. simpl in C. apply Z.eqb_eq in C. subst n. exact I.
  - (* CONTAINS *)
    destruct arg as [s|z|t|]; try contradiction.
    eexists. split; [reflexivity|]. intro x. rewrite sat_vals by discriminate.
    cbn [c_key c_op c_arg]. rewrite in_flat_map. split.
    + intros [[key x'] [I G]]. apply (p1_fwd k key x' W) in I as [v [typ [-> [b [B I]]]]].
      cbn [fst snd] in G. destruct (str_contains s v) eqn:SC; [|destruct G].
      destruct G as [<-|[]]. exists b. split; auto. apply mv_contains. exists v. split; auto.
      apply In_vals. exact I.
    + intros [b [B M]]. apply mv_contains in M as [v [M1 M2]]. apply In_vals in M1.
      destruct (p1_bwd k v x b W B M1) as [typ J]. exists (EK k v x typ, x). split; auto.
      cbn [fst snd]. rewrite M2. left; reflexivity.
  - (* EXISTS *)
    assert (DOT : has_char "."%char k = true) by (destruct arg; exact W).
    eexists. split; [reflexivity|]. intro x. unfold Sat, blk_events.
    rewrite in_map_iff. destruct (String.eqb_spec k BlockHeightKey) as [->|NK].
    + split.
      * intros [[key x'] [E I]]. simpl in E. subst x'. apply p1h_fwd in I as [_ [b B]].
        exists b. split; auto. apply match_cond_group_exists; auto.
        exists (dec (b_height b)). apply bhk_attr; [apply B | reflexivity].
      * intros [b [B _]]. exists (PK x, x). split; [reflexivity | eapply p1h_bwd; eauto].
    + split.
      * intros [[key x'] [E I]]. simpl in E. subst x'.
        apply (p1_fwd k key x NK) in I as [v [typ [_ [b [B I]]]]].
        exists b. split; auto. apply match_cond_group_exists; auto. exists v. exact I.
      * intros [b [B M]]. apply match_cond_group_exists in M as [v M]; auto. cbn [c_key] in M.
        destruct (p1_bwd k v x b NK B M) as [typ J]. exists (EK k v x typ, x). auto.
Qed.

(* ---- ranges ---- *)

Lemma numok_parse : forall v, NumOK v -> exists z, v = dec z /\ parse_int_go v = Some z.
Proof. intros v [z [E [_ P]]]. eauto. Qed.

Lemma numok_dec : forall n, NumOK (dec n) -> parse_int_go (dec n) = Some n.
Proof. intros n [z [E [_ P]]]. apply dec_inj in E. subst z. exact P. Qed.

(* what a range scan on k compares: the integer readings of the values of k *)
Lemma cands_spec : forall k n x, BNumKey hist k ->
  (In (n, x) (range_cands st k) <-> exists b, At x b /\ In (k, dec n) (blk_attrs b)).
Proof.
  intros k n x NK. unfold range_cands. rewrite in_flat_map.
  destruct (String.eqb_spec k BlockHeightKey) as [->|NH].
  - split.
    + intros [[key x'] [I G]]. apply p1h_fwd in I as [-> [b B]]. cbn [fst snd range_value] in G.
      assert (N : NumOK (dec x')).
      { destruct B as [B1 [B2 B3]]. apply (NK b _ B1 B2). apply In_vals, bhk_attr; congruence. }
      rewrite (numok_dec _ N) in G. destruct G as [G|[]]. injection G as <- <-.
      exists b. split; auto. destruct B as [_ [B2 B3]]. apply bhk_attr; congruence.
    + intros [b [B I]]. pose proof B as [B1 [B2 B3]].
      assert (N : NumOK (dec n)) by (apply (NK b _ B1 B2), In_vals; exact I).
      apply bhk_attr in I; [|exact B2]. apply dec_inj in I. rewrite B3 in I. subst n.
      exists (PK x, x). split; [eapply p1h_bwd; eauto|]. cbn [fst snd range_value].
      rewrite (numok_dec _ N). left; reflexivity.
  - split.
    + intros [[key x'] [I G]]. apply (p1_fwd k key x' NH) in I as [v [typ [-> [b [B I]]]]].
      cbn [fst snd range_value] in G.
      assert (N : NumOK v) by (destruct B as [B1 [B2 _]]; apply (NK b _ B1 B2), In_vals; exact I).
      destruct (numok_parse _ N) as [z [-> P]]. rewrite P in G. destruct G as [G|[]].
      injection G as <- <-. exists b. auto.
    + intros [b [B I]].
      assert (N : NumOK (dec n)) by (destruct B as [B1 [B2 _]]; apply (NK b _ B1 B2), In_vals; exact I).
      destruct (p1_bwd k (dec n) x b NH B I) as [typ J]. exists (EK k (dec n) x typ, x).
      split; auto. cbn [fst snd range_value]. rewrite (numok_dec _ N). left; reflexivity.
Qed.

Lemma brange_generic : forall r lo hi,
  lower_value r = Some lo -> upper_value r = Some hi -> is_bad lo = false -> is_bad hi = false ->
  any_is_int r = true ->
  brange_hits st r =
  Some (map snd (filter (fun vh => lo_ok lo (fst vh) && hi_ok hi (fst vh)) (range_cands st (r_key r)))).
Proof.
  intros r lo hi L H BL BH A. unfold brange_hits. rewrite L, H, A, BL, BH.
  destruct (range_cands st (r_key r)); reflexivity.
Qed.

Lemma brange_hits_spec : forall c, bwf_cond hist c -> is_range c = true ->
  exists t, brange_hits st (single c) = Some t /\ forall x, In x t <-> Sat c x.
Proof.
  intros [k op arg] W R. unfold bwf_cond in W. cbn [c_key c_op c_arg] in W.
  unfold is_range in R. cbn [c_op] in R.
  assert (forall lo hi,
            lower_value (single {| c_key := k; c_op := op; c_arg := arg |}) = Some lo ->
            upper_value (single {| c_key := k; c_op := op; c_arg := arg |}) = Some hi ->
            is_bad lo = false -> is_bad hi = false ->
            any_is_int (single {| c_key := k; c_op := op; c_arg := arg |}) = true ->
            BNumKey hist k ->
            (forall z, arg = OInt z -> forall n, lo_ok lo n && hi_ok hi n = cmp_ok op n z) ->
            (exists z, arg = OInt z) -> op <> OpExists ->
            exists t, brange_hits st (single {| c_key := k; c_op := op; c_arg := arg |}) = Some t /\
                      forall x, In x t <-> Sat {| c_key := k; c_op := op; c_arg := arg |} x) as GEN.
  { intros lo hi L H BL BH A NK CMP [z ->] NE. eexists. split; [apply (brange_generic _ lo hi); auto|].
    intro x. rewrite sat_int by assumption.
    replace (r_key (single {| c_key := k; c_op := op; c_arg := OInt z |})) with k
      by (unfold single; rewrite apply_cond_key; reflexivity).
    rewrite in_map_iff. split.
    - intros [[n x'] [E I]]. simpl in E. subst x'. apply filter_In in I as [I F]. cbn [fst] in F.
      apply (cands_spec k n x NK) in I as [b [B I]]. exists b. split; auto. exists n. split; auto.
      rewrite <- (CMP z eq_refl). exact F.
    - intros [b [B [n [I C]]]]. exists (n, x). split; [reflexivity|]. apply filter_In. split.
      + apply (cands_spec k n x NK). eauto.
      + cbn [fst]. rewrite (CMP z eq_refl). exact C. }
  destruct op; try discriminate R; destruct arg as [s|z|t|]; try contradiction.
  - apply (GEN BNone (BInt z)); try reflexivity; try exact W; try discriminate; eauto.
    intros z' E n. injection E as <-. reflexivity.
  - apply (GEN (BInt z) BNone); try reflexivity; try exact W; try discriminate; eauto.
    intros z' E n. injection E as <-. simpl. rewrite andb_true_r. rewrite Z.geb_leb. reflexivity.
  - apply (GEN BNone (BInt (z - 1))); try reflexivity; try exact W; try discriminate; eauto.
    intros z' E n. injection E as <-. simpl.
    destruct (Z.leb_spec n (z - 1)), (Z.ltb_spec n z); try reflexivity; lia.
  - apply (GEN (BInt (z + 1)) BNone); try reflexivity; try exact W; try discriminate; eauto.
    intros z' E n. injection E as <-. simpl. rewrite andb_true_r. rewrite Z.gtb_ltb.
    destruct (Z.leb_spec (z + 1) n), (Z.ltb_spec z n); try reflexivity; lia.
Qed.

End BHits.

(* ------------------------------------------------------------------ exactness of Search *)

(* two blocks of the same height whose Index returned nil carry the same indexed attributes
   (a height is indexed once, or re-indexed with the same events) *)
Definition BConsistent (hist : list block) : Prop :=
  forall b1 b2, In b1 hist -> index_ok b1 = true -> In b2 hist -> index_ok b2 = true ->
    b_height b1 = b_height b2 -> blk_attrs b1 = blk_attrs b2.

Definition one_range_per_key (q : query) : Prop := NoDup (map c_key (filter is_range q)).

Lemma forall2_nil_r : forall (A B : Type) (P : A -> B -> Prop) l, Forall2 P l [] -> l = [].
Proof. intros A B P l F. inversion F. reflexivity. Qed.

(* C19_block_search_exact_partial.  FULL STATEMENT AIMED AT: as below, with one_range_per_key
   relaxed to "at most one lower (> >=) and one upper (< <=) bound per key, both only on keys
   that are single-valued in every indexed block" (there LookForRanges merges the two bounds
   into one interval, which is then still the conjunction).
   PROVED HERE: every history of Index calls (failed calls and consistent re-indexing
   included), every query that is a non-empty conjunction of
     key = 'string'   key CONTAINS 'string'   (key an application key)
     key EXISTS (dotted key, block.height included)
     key = integer   key < <= > >= integer   (block.height included; at most one range
                                              condition per key)
   in any order: the two loops of Search (ranges first, first-run / empty-set short-cuts), the
   primary-key scan for block.height = H (F47), Has-filter and sort included.
   MISSING: two-sided ranges on one key (monitored and differentially tested only), and the
   lemma that [dec z] is NumOK for every 0 <= z <= MaxInt64 (NumOK is a premise on the values
   integer conditions are compared with, heights included). *)
Theorem C19_block_search_exact_partial : forall (hist : list block) (q : query),
  BConsistent hist ->
  q <> [] ->
  (forall c, In c q -> bwf_cond hist c) ->
  one_range_per_key q ->
  exists hs, bsearch (brun hist) q = BOk hs /\ StronglySorted Z.lt hs /\
    forall h, In h hs <->
      exists b, In b hist /\ index_ok b = true /\ b_height b = h /\
                matches q (blk_events b) = MTrue.
Proof.
  intros hist q CONS NE WF ONE. set (st := brun hist).
  assert (OK : BStoreOK hist st) by apply brun_ok.
  set (rq := filter is_range q).
  set (oq := filter (fun c => negb (is_range_op (c_op c))) q).
  assert (PART : forall c, In c q <-> In c (rq ++ oq)).
  { intro c. unfold rq, oq, is_range. rewrite in_app_iff, !filter_In.
    destruct (is_range_op (c_op c)); simpl; intuition discriminate. }
  destruct (map_some _ (fun c => brange_hits st (single c))
                     (fun c t => forall x, In x t <-> Sat hist c x) rq) as [ts1 [E1 F1]].
  { intros c I. apply filter_In in I as [I R]. apply (brange_hits_spec hist st OK c); auto. }
  destruct (map_some _ (bcond_hits st)
                     (fun c t => forall x, In x t <-> Sat hist c x) oq) as [ts2 [E2 F2]].
  { intros c I. apply filter_In in I as [I R]. apply (bcond_hits_spec hist st OK c); auto.
    unfold is_range. apply negb_true_iff. exact R. }
  assert (F : Forall2 (fun c t => forall x, In x t <-> Sat hist c x) (rq ++ oq) (ts1 ++ ts2))
    by (apply Forall2_app; assumption).
  assert (NN : ts1 ++ ts2 <> []).
  { intro X. rewrite X in F. apply forall2_nil_r in F. destruct q as [|c q']; [contradiction|].
    assert (I : In c (rq ++ oq)) by (apply PART; left; reflexivity). rewrite F in I. destruct I. }
  destruct (bsteps_false (ts1 ++ ts2) NN) as [f' [R S]].
  rewrite map_app, bsteps_app in R.
  unfold bsearch. fold st. rewrite (lfr_single q ONE). fold rq. rewrite map_map, E1. fold oq. rewrite E2.
  destruct (brun_steps (map Some ts1) false []) as [[i1 f1]|]; [|discriminate R]. rewrite R.
  eexists. split; [reflexivity|]. split; [apply zsort_sorted|].
  intro h. rewrite zsort_in, filter_In, S, (forall2_all _ (Sat hist) _ _ h F). split.
  - intros [A _]. destruct q as [|c0 q'] eqn:Q; [contradiction|]. rewrite <- Q in *.
    assert (I0 : In c0 q) by (rewrite Q; left; reflexivity).
    destruct (A c0 (proj1 (PART c0) I0)) as [b0 [[B1 [B2 B3]] _]].
    exists b0. repeat split; auto.
    rewrite matches_nonnil by apply blk_events_nonnil. apply match_conds_all. intros c I.
    destruct (A c (proj1 (PART c) I)) as [b [[C1 [C2 C3]] M]].
    unfold blk_events in *. rewrite (CONS b0 b B1 B2 C1 C2) by congruence. exact M.
  - intros [b [B1 [B2 [B3 M]]]]. split.
    + intros c I. exists b. split; [unfold At; auto|].
      rewrite matches_nonnil in M by apply blk_events_nonnil.
      apply (proj1 (match_conds_all q (blk_events b)) M). apply PART. exact I.
    + apply (bhas_spec hist st h OK). exists b. auto.
Qed.

Print Assumptions C19_block_indexed_once.
Print Assumptions C19_block_search_exact_partial.

(* ------------------------------------------------------------------ concrete instances *)

Local Open Scope string_scope.

Definition ev1 (typ : string) (attrs : list (string * string)) : event :=
  {| e_type := typ;
     e_attrs := map (fun kv => {| a_key := fst kv; a_val := snd kv; a_index := true |}) attrs |}.
Definition blk (h : Z) (bg en : list event) : block := {| b_height := h; b_begin := bg; b_end := en |}.

Definition bfound (h : Z) (r : bres) : bool := match r with BOk hs => zmem h hs | _ => false end.
Definition bsat (q : query) (b : block) : bool := mres_eqb (matches q (blk_events b)) MTrue.

(* non-vacuity: three blocks (one attribute in BeginBlock, one in EndBlock, height 2 indexed
   twice with the same events, one block rejected for the reserved key) *)
Definition bnv_b1 := blk 1 [ev1 "a" [("y", "p"); ("y", "q")]] [ev1 "b" [("x", "7")]]%string.
Definition bnv_b2 := blk 2 [ev1 "a" [("y", "p")]] [ev1 "b" [("x", "5")]]%string.
Definition bnv_b3 := blk 3 [ev1 "a" [("y", "p")]] [ev1 "block" [("height", "1")]]%string.
Definition bnv_b4 := blk 4 [ev1 "a" [("y", "q")]] [ev1 "b" [("x", "9")]]%string.
Definition bnv_hist : list block := [bnv_b1; bnv_b2; bnv_b3; bnv_b2; bnv_b4].
Definition bnv_q : query :=
  [cnd "a.y" OpEq (OStr "p"); cnd "b.x" OpGt (OInt 5); cnd "block.height" OpLe (OInt 3);
   cnd "a.y" OpContains (OStr "q"); cnd "b.x" OpExists ONone; cnd "block.height" OpEq (OInt 1)]%string.

Example C19_block_indexed_once_nonvacuous :
  In (PK 2, 2) (brun bnv_hist) /\
  In (EK "a.y" "q" 1 BeginTyp, 1) (brun bnv_hist) /\
  In (EK "b.x" "5" 2 EndTyp, 2) (brun bnv_hist) /\
  List.length (brun bnv_hist) = 10%nat /\
  index_ok bnv_b3 = false /\ bhas (brun bnv_hist) 3 = false /\ bhas (brun bnv_hist) 4 = true.
Proof. vm_compute. intuition. Qed.

Lemma bnv_numok : forall v, In v ["1"; "2"; "4"; "5"; "7"; "9"]%string -> NumOK v.
Proof.
  intros v [<-|[<-|[<-|[<-|[<-|[<-|[]]]]]]];
    [exists 1 | exists 2 | exists 4 | exists 5 | exists 7 | exists 9]; vm_compute; auto.
Qed.

Example C19_block_search_exact_nonvacuous :
  BConsistent bnv_hist /\ bnv_q <> [] /\
  (forall c, In c bnv_q -> bwf_cond bnv_hist c) /\ one_range_per_key bnv_q /\
  bsearch (brun bnv_hist) bnv_q = BOk [1] /\
  bsat bnv_q bnv_b1 = true /\ bsat bnv_q bnv_b2 = false /\ bsat bnv_q bnv_b4 = false /\
  bsearch (brun bnv_hist) [cnd "a.y" OpEq (OStr "p"); cnd "b.x" OpLt (OInt 9)]%string = BOk [1; 2].
Proof.
  split.
  { intros b1 b2 I1 O1 I2 O2 E.
    destruct I1 as [<-|[<-|[<-|[<-|[<-|[]]]]]]; try discriminate O1;
    destruct I2 as [<-|[<-|[<-|[<-|[<-|[]]]]]]; try discriminate O2;
    try reflexivity; vm_compute in E; discriminate E. }
  split; [discriminate|].
  split.
  { assert (NK : forall k, In k ["block.height"; "b.x"]%string -> BNumKey bnv_hist k).
    { intros k [<-|[<-|[]]] b v [<-|[<-|[<-|[<-|[<-|[]]]]]] O I; try discriminate O;
        vm_compute in I; apply bnv_numok; simpl; tauto. }
    intros c [<-|[<-|[<-|[<-|[<-|[<-|[]]]]]]]; unfold bwf_cond; simpl;
      try discriminate; try reflexivity; apply NK; simpl; tauto. }
  split.
  { vm_compute. repeat constructor; simpl; intuition discriminate. }
  vm_compute. auto 10.
Qed.

(* ---- the original Search (F47) and the known classes, exhibited on the models (each also
   reproduced on the real code by a directed case of the harness) ---- *)

(* F47: block.height = H made the original Search ignore every other condition *)
Example C19_block_original_height_shortcut_refuted :
  let st := brun bnv_hist in
  let q := [cnd "block.height" OpEq (OInt 2); cnd "a.y" OpEq (OStr "q")]%string in
  bsearch_original st q = BOk [2] /\ bsat q bnv_b2 = false /\ bsearch st q = BOk [] /\
  bsearch_original st [cnd "block.height" OpEq (OStr "zz")]%string = BPanic /\
  bsearch st [cnd "block.height" OpEq (OStr "zz")]%string = BOk [].
Proof. vm_compute. auto. Qed.

(* 25: range conditions on one key are merged, the later bound wins *)
Example C19_block_search_merged_ranges_refuted :
  let b := blk 1 [ev1 "a" [("x", "3")]]%string [] in
  let q := [cnd "a.x" OpGt (OInt 5); cnd "a.x" OpGt (OInt 1)]%string in
  bsearch (brun [b]) q = BOk [1] /\ bsat q b = false.
Proof. vm_compute. auto. Qed.

(* 34: block.height compared as a string *)
Example C19_block_search_height_as_string_refuted :
  let b := blk 5 [] [] in
  bsearch (brun [b]) [cnd "block.height" OpEq (OStr "5")]%string = BOk [] /\
  bsat [cnd "block.height" OpEq (OStr "5")]%string b = true /\
  bsearch (brun [b]) [cnd "block.height" OpContains (OStr "5")]%string = BOk [] /\
  bsat [cnd "block.height" OpContains (OStr "5")]%string b = true.
Proof. vm_compute. auto. Qed.

(* 36: TIME / DATE operands never find anything; mixed with an integer bound they compare
   Unix seconds with integers, or panic *)
Example C19_block_search_time_refuted :
  let b := blk 1 [ev1 "a" [("y", "2013-05-03T14:45:00Z"); ("x", "7")]]%string [] in
  bsearch (brun [b]) [cnd "a.y" OpGe (OTime 1367592300)]%string = BOk [] /\
  bsat [cnd "a.y" OpGe (OTime 1367592300)]%string b = true /\
  bsearch (brun [b]) [cnd "a.x" OpGt (OInt 5); cnd "a.x" OpLt (OTime 1367592300)]%string = BOk [1] /\
  bsat [cnd "a.x" OpGt (OInt 5); cnd "a.x" OpLt (OTime 1367592300)]%string b = false /\
  bsearch (brun [b]) [cnd "a.x" OpGt (OInt 5); cnd "a.x" OpLe (OTime 1367592300)]%string = BPanic.
Proof. vm_compute. auto. Qed.

(* 37: "12." is 12 for the matcher, not found by "= 12"; "-5" is 5 for the matcher, -5 for
   the indexer *)
Example C19_block_search_numeric_refuted :
  let b := blk 1 [ev1 "a" [("x", "12.")]]%string [ev1 "a" [("z", "-5")]]%string in
  bsearch (brun [b]) [cnd "a.x" OpEq (OInt 12)]%string = BOk [] /\
  bsat [cnd "a.x" OpEq (OInt 12)]%string b = true /\
  bsearch (brun [b]) [cnd "a.z" OpLt (OInt 0)]%string = BOk [1] /\
  bsat [cnd "a.z" OpLt (OInt 0)]%string b = false.
Proof. vm_compute. auto. Qed.

(* 38: EXISTS on a key without '.' *)
Example C19_block_search_exists_undotted_refuted :
  let b := blk 1 [ev1 "a" [("y", "p")]]%string [] in
  bsearch (brun [b]) [cnd "a" OpExists ONone]%string = BOk [] /\
  bsat [cnd "a" OpExists ONone]%string b = true /\
  bsearch (brun [b]) [cnd "b" OpExists ONone]%string = BOk [] /\
  bsat [cnd "b" OpExists ONone]%string b = true.
Proof. vm_compute. auto. Qed.
