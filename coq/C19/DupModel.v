(* C19 (search half, finding F91) — the decidable class "the same transaction bytes committed
   at two positions".  NO proofs here.  state/txindex/kv keys the primary record by the hash of
   the transaction bytes: a second commit of the same bytes (honest: a resubmission after a
   failed DeliverTx, a replay after the mempool cache was evicted or the node restarted)
   overwrites the record of the first, while the secondary keys of the first stay and lead
   Search to the overwriting record. *)
From Coq Require Import String List ZArith Bool.
From TM Require Import C19.Query C19.SearchModel.
Import ListNotations.
Open Scope Z_scope.

Definition same_bytes_other_pos (a b : txres) : bool :=
  String.eqb (t_hash a) (t_hash b)
  && negb ((t_height a =? t_height b) && (t_index a =? t_index b)).

(* known class 91: two indexed results with equal transaction bytes at different (height, index) *)
Fixpoint dup91 (txs : list txres) : bool :=
  match txs with
  | [] => false
  | t :: r => existsb (same_bytes_other_pos t) r || dup91 r
  end.
