(* C19 (search half, blocks) — executable side: the case type written by
   harness/overlay/state/indexer/block/kv/verif_c19_block_test.go, the monitors of the clause
   "every block that was committed is indexed once under its height and events, and a search
   returns exactly the indexed items that satisfy the query" evaluated on the implementation's
   own answers, and the comparison with the model (BlockModel.v).
   Depends on Query.v, SearchModel.v, BlockModel.v and the case helpers of ExecSearch.v only.

   "Satisfies the query" = the real query.Matches (libs/pubsub/query) returned (true, nil) on
   the block's event map {type.key -> values of the BeginBlock then EndBlock attributes with
   Index=true, in order; block.height -> [height]}; the harness evaluates it in Go for every
   Index call of the history and hands the verdicts over ([mv]); an error counts as "no".
   "Indexed blocks" = the Index calls that returned nil.

   CLAUSES (V_violation n); 14 and 15 are evaluated when the history satisfies the premise
   that two indexed blocks with the same height carry the same indexed attributes (re-indexing
   a height with other events leaves the union of both key sets in the store):
     14  Search returned a height that is not the height of an indexed block satisfying the
         query (false positive)
     15  Search missed the height of an indexed block that satisfies the query (false negative;
         a Search that fails or panics counts as returning nothing)
     16  Search panicked or failed on a well-formed query, or its result is not strictly
         ascending (sorted, no duplicates), or Has(h) is not "some Index(h) returned nil"
   OBSERVABLES (V_mismatch n):
     41  model bsearch (heights in order / error / panic) vs BlockerIndexer.Search
     42  model [matches q (blk_events b)] vs the real Query.Matches on the Go event map
     43  model Index result (nil / error) and Has vs the implementation
   KNOWN classes (V_known n instead of V_violation when the failing query/data is in the class
   and the class can explain the direction of the failure):
     25  merged ranges (indexer.LookForRanges, shared with the transaction indexer), clauses
         14 and 15: two lower-bound (> >=) or two upper-bound (< <=) conditions on one key; or
         a lower and an upper bound on a key under which some indexed block has >= 2 values
     34  block.height compared as a string, clause 15 only: a condition on block.height with
         CONTAINS or with "= 'string'" (the primary key holds the height as an integer)
     36  TIME/DATE operand, clauses 14, 15 and 16(panic): some condition has a TIME/DATE operand
         (never found; a range mixing an integer bound with an exclusive TIME/DATE bound
         compares integer values with the bound's Unix seconds, with an inclusive one panics)
     37  numeric strictness, clauses 14 and 15: a condition with an integer operand on key k
         while some indexed block has under k a value v that is not the canonical decimal of an
         int64 >= 0, unless no value of k in that block has a digit or a dot (then the matcher
         errors and the indexer parses nothing: both find nothing)
     38  EXISTS on a key without '.', clause 15 only *)
From Coq Require Import String Ascii List ZArith NArith Bool.
From TM Require Import Common.Hex C19.Query C19.SearchModel C19.ExecSearch.
From TM Require Export C19.BlockModel.
Import ListNotations.
Open Scope Z_scope.

(* height, BeginBlock events, EndBlock events, Index returned nil *)
Definition blk_t := (Z * list event_t * list event_t * bool)%type.
(* conditions; Search's answer; Matches' verdict for each Index call of the history, in
   order: 0 false, 1 true, 2 error *)
Definition bquery_t := (list cond_t * bres * list N)%type.

(* hist: the Index calls in order; has: Has(h) afterwards for the heights of the history and
   some others; qs: the queries *)
Inductive bcase := BCase (hist : list blk_t) (has : list (Z * bool)) (qs : list bquery_t).

Definition mk_blk (b : blk_t) : block :=
  let '(h, bg, en, _) := b in
  {| b_height := h; b_begin := map mk_event bg; b_end := map mk_event en |}.
Definition blk_ok (b : blk_t) : bool := let '(_, _, _, ok) := b in ok.

(* ------------------------------------------------------------------ helpers *)

Definition zsubset (a b : list Z) : bool := forallb (fun x => zmem x b) a.
Fixpoint strictly_asc (l : list Z) : bool :=
  match l with
  | x :: ((y :: _) as r) => (x <? y) && strictly_asc r
  | _ => true
  end.
Fixpoint zlist_eqb (a b : list Z) : bool :=
  match a, b with
  | [], [] => true
  | x :: a', y :: b' => (x =? y) && zlist_eqb a' b'
  | _, _ => false
  end.
Fixpoint attrs_eqb (a b : list (string * string)) : bool :=
  match a, b with
  | [], [] => true
  | x :: a', y :: b' => String.eqb (fst x) (fst y) && String.eqb (snd x) (snd y) && attrs_eqb a' b'
  | _, _ => false
  end.

(* two indexed blocks of the same height carry the same indexed attributes *)
Fixpoint consistent (bs : list block) : bool :=
  match bs with
  | [] => true
  | b :: r =>
    forallb (fun b' => negb (b_height b =? b_height b') || attrs_eqb (blk_attrs b) (blk_attrs b')) r
    && consistent r
  end.

(* ------------------------------------------------------------------ known classes *)

Definition bvals (k : string) (b : block) : list string := vals_of k (blk_attrs b).

Definition bnum_bad (k : string) (b : block) : bool :=
  let vs := bvals k b in
  existsb (fun v => negb (canonical v) && negb (forallb digit_free vs)) vs.

Definition bin25 (bs : list block) (q : query) : bool :=
  existsb (fun c =>
    let k := c_key c in
    let lo := count_conds is_lower k q in
    let hi := count_conds is_upper k q in
    Nat.ltb 1 lo || Nat.ltb 1 hi
    || (Nat.ltb 0 lo && Nat.ltb 0 hi
        && existsb (fun b => Nat.ltb 1 (List.length (bvals k b))) bs)) q.

Definition bin34 (q : query) : bool :=
  existsb (fun c => String.eqb (c_key c) BlockHeightKey
                    && match c_op c, c_arg c with
                       | OpContains, _ => true
                       | OpEq, OStr _ => true
                       | _, _ => false
                       end) q.

Definition bin36 (q : query) : bool := existsb (fun c => is_time_arg (c_arg c)) q.

Definition bin37 (bs : list block) (q : query) : bool :=
  existsb (fun c => is_int_arg (c_arg c) && existsb (bnum_bad (c_key c)) bs) q.

Definition bin38 (q : query) : bool :=
  existsb (fun c => match c_op c with OpExists => negb (has_char "."%char (c_key c)) | _ => false end) q.

(* ------------------------------------------------------------------ check *)

Definition bres_agree (m i : bres) : bool :=
  match m, i with
  | BOk a, BOk b => zlist_eqb a b
  | BErr, BErr => true
  | BPanic, BPanic => true
  | _, _ => false
  end.

(* heights of the indexed blocks the real matcher accepts *)
Fixpoint bpick_true (bs : list (block * bool)) (mv : list N) : list Z :=
  match bs, mv with
  | (b, ok) :: bs', v :: mv' =>
    (if ok && (v =? 1)%N then [b_height b] else []) ++ bpick_true bs' mv'
  | _, _ => []
  end.

Definition bquery_verdicts (premise : bool) (st : bstore) (bs : list (block * bool)) (sq : bquery_t)
  : list verdict :=
  let '(conds, ir, mv) := sq in
  let q := map mk_cond conds in
  let okb := map fst (filter (fun x => snd x) bs) in
  let returned := match ir with BOk hs => hs | _ => [] end in
  let completed := match ir with BOk _ => true | _ => false end in
  let satisfying := bpick_true bs mv in
  let c25 := bin25 okb q in let c34 := bin34 q in let c36 := bin36 q in
  let c37 := bin37 okb q in let c38 := bin38 q in
  (if premise then
     [ classify (zsubset returned satisfying) 14 [(c36, 36%N); (c25, 25%N); (c37, 37%N)];
       classify (zsubset satisfying returned) 15
                [(c36, 36%N); (c25, 25%N); (c38, 38%N); (c34, 34%N); (c37, 37%N)] ]
   else [])
  ++ [ classify completed 16 [(c36, 36%N)];
       viol (strictly_asc returned) 16;
       mism (bres_agree (bsearch st q) ir) 41;
       mism (Nat.eqb (List.length mv) (List.length bs)
             && forallb (fun bv => (mres_code (matches q (blk_events (fst (fst bv)))) =? snd bv)%N)
                        (combine bs mv)) 42 ].

Definition bcheck (c : bcase) : verdict :=
  match c with
  | BCase hist has qs =>
    let bs := map (fun b => (mk_blk b, blk_ok b)) hist in
    let blocks := map fst bs in
    let okb := map fst (filter (fun x => snd x) bs) in
    let st := brun blocks in
    let premise := consistent okb in
    first_of (
      [ viol (forallb (fun ha => Bool.eqb (snd ha)
                                   (existsb (fun b => b_height b =? fst ha) okb)) has) 16;
        mism (forallb (fun b => Bool.eqb (index_ok (fst b)) (snd b)) bs) 43;
        mism (forallb (fun ha => Bool.eqb (bhas st (fst ha)) (snd ha)) has) 43 ]
      ++ flat_map (bquery_verdicts premise st bs) qs)
  end.
