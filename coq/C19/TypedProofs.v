(* C19 (search half, finding F92) — proofs about TypedModel.v: on well-typed queries the repaired
   Search is the Search of SearchModel.v (so the exactness theorems apply unchanged); on EVERY
   query whose range operands are numbers it does not panic: it answers or refuses; the
   transcription of the unrepaired code panics. *)
From Coq Require Import String Ascii List ZArith Bool Lia.
From TM Require Import C19.Query C19.SearchModel C19.SearchProofs C19.BlockModel C19.BlockProofs
     C19.TypedModel.
Import ListNotations.
Open Scope Z_scope.

(* ------------------------------------------------------------------ well-typed queries *)

(* no float bound; tx.hash only with a string operand; "tx.height =" only with an integer *)
Definition well_typed (xq : xquery) : Prop :=
  existsb float_range xq = false /\
  forall c, In c xq ->
    (x_key c = TxHashKey -> exists s, x_arg c = XA (OStr s)) /\
    (x_key c = TxHeightKey -> x_op c = OpEq -> exists z, x_arg c = XA (OInt z)).

Lemma hash_r_agrees : forall xq,
  (forall c, In c xq -> x_key c = TxHashKey -> exists s, x_arg c = XA (OStr s)) ->
  look_for_hash (map base xq) =
  match look_for_hash_r xq with RNone => HNone | RFound h => HFound h | RErr => HPanic end.
Proof.
  induction xq as [|c r IH]; intro W; cbn [map look_for_hash look_for_hash_r]; [reflexivity|].
  cbn [base c_key c_arg]. destruct (String.eqb_spec (x_key c) TxHashKey) as [E|N].
  - destruct (W c (or_introl eq_refl) E) as [s ->]. reflexivity.
  - apply IH. intros c' I. apply W. right. exact I.
Qed.

Lemma height_r_agrees : forall xq,
  (forall c, In c xq -> x_key c = TxHeightKey -> x_op c = OpEq -> exists z, x_arg c = XA (OInt z)) ->
  look_for_height (map base xq) = Some (look_for_height_r xq).
Proof.
  induction xq as [|c r IH]; intro W; cbn [map look_for_height look_for_height_r]; [reflexivity|].
  cbn [base c_key c_op c_arg].
  assert (IHr : look_for_height (map base r) = Some (look_for_height_r r))
    by (apply IH; intros c' I; apply W; right; exact I).
  destruct (String.eqb_spec (x_key c) TxHeightKey) as [E|N]; cbn [andb]; [|exact IHr].
  destruct (x_op c) eqn:O; try exact IHr.
  destruct (W c (or_introl eq_refl) E O) as [z ->]. reflexivity.
Qed.

Lemma hash_r_no_err : forall xq,
  (forall c, In c xq -> x_key c = TxHashKey -> exists s, x_arg c = XA (OStr s)) ->
  look_for_hash_r xq <> RErr.
Proof.
  induction xq as [|c r IH]; intro W; cbn [look_for_hash_r]; [discriminate|].
  destruct (String.eqb_spec (x_key c) TxHashKey) as [E|N].
  - destruct (W c (or_introl eq_refl) E) as [s ->]. discriminate.
  - apply IH. intros c' I. apply W. right. exact I.
Qed.

(* on well-typed queries the repair changes nothing: the exactness theorems of SearchProofs.v /
   SearchRangeProofs.v / SearchExact.v are theorems about the repaired Search *)
Theorem tx_search_typed_agrees : forall st xq, well_typed xq ->
  tx_search_typed st xq = search st (map base xq).
Proof.
  intros st xq [NF W]. unfold tx_search_typed, search. rewrite NF.
  rewrite (hash_r_agrees xq) by (intros c I; apply (W c I)).
  rewrite (height_r_agrees xq) by (intros c I; apply (W c I)).
  pose proof (hash_r_no_err xq (fun c I => proj1 (W c I))) as NE.
  destruct (look_for_hash_r xq); try reflexivity. contradiction.
Qed.

Lemma base_lift : forall c, base (lift c) = c.
Proof. intros [k o a]. reflexivity. Qed.

Lemma map_base_lift : forall q, map base (map lift q) = q.
Proof. induction q as [|c q IH]; cbn [map]; [reflexivity|]. rewrite base_lift, IH. reflexivity. Qed.

(* ------------------------------------------------------------------ no panic *)

(* the range operands are numbers (integers or floats): what the grammar produces apart from
   TIME / DATE operands (known classes 26 / 36) *)
Definition numeric_ranges (xq : xquery) : Prop :=
  forall c, In c xq -> is_range_op (x_op c) = true ->
    (exists z, x_arg c = XA (OInt z)) \/ is_float (x_arg c) = true.

Definition int_or_none (o : option operand) : Prop := o = None \/ exists z, o = Some (OInt z).
Definition int_bounds (r : qrange) : Prop := int_or_none (r_lo r) /\ int_or_none (r_hi r).
Definition has_bound (r : qrange) : Prop := r_lo r <> None \/ r_hi r <> None.

Lemma apply_int : forall c r, is_range_op (c_op c) = true -> (exists z, c_arg c = OInt z) ->
  int_bounds r -> int_bounds (apply_cond c r) /\ has_bound (apply_cond c r).
Proof.
  intros c r R [z A] [L H]. unfold apply_cond, int_bounds, has_bound, int_or_none.
  destruct (c_op c); try discriminate R; cbn [r_lo r_hi]; rewrite A;
    (split; [split; eauto | ]); try (left; discriminate); try (right; discriminate).
Qed.

Lemma apply_keeps_bound : forall c r, has_bound r -> has_bound (apply_cond c r).
Proof.
  intros c r [L|H]; unfold apply_cond, has_bound; destruct (c_op c); cbn [r_lo r_hi]; auto;
    try (left; discriminate); try (right; discriminate).
Qed.

Lemma fold_int : forall cs r,
  (forall c, In c cs -> is_range_op (c_op c) = true /\ exists z, c_arg c = OInt z) ->
  int_bounds r -> (cs <> [] \/ has_bound r) ->
  let r' := fold_left (fun r c => apply_cond c r) cs r in int_bounds r' /\ has_bound r'.
Proof.
  induction cs as [|c cs IH]; intros r W IB NB; cbn [fold_left].
  - split; [exact IB|]. destruct NB as [NB|NB]; [contradiction | exact NB].
  - destruct (W c (or_introl eq_refl)) as [R A]. destruct (apply_int c r R A IB) as [IB' HB'].
    apply IH; [intros c' I; apply W; right; exact I | exact IB' | right; exact HB'].
Qed.

Lemma int_range_kind : forall r, int_bounds r -> has_bound r -> exists lo hi, range_kind r = RInt lo hi.
Proof.
  intros r [[L|[zl L]] [H|[zh H]]] [NB|NB]; unfold range_kind; rewrite L, H; try contradiction;
    eexists; eexists; reflexivity.
Qed.

Lemma all_some_total : forall (A B : Type) (g : A -> option B) (l : list A),
  (forall x, In x l -> g x <> None) -> all_some (map g l) <> None.
Proof.
  induction l as [|x l IH]; intro W; cbn [map all_some]; [discriminate|].
  destruct (g x) eqn:E; [|exfalso; apply (W x); [left; reflexivity | exact E]].
  assert (N : all_some (map g l) <> None) by (apply IH; intros y I; apply W; right; exact I).
  destruct (all_some (map g l)); [discriminate | contradiction].
Qed.

Lemma ranges_answered : forall st q,
  (forall c, In c q -> is_range_op (c_op c) = true -> exists z, c_arg c = OInt z) ->
  all_some (map (range_hits st) (look_for_ranges q)) <> None.
Proof.
  intros st q W. rewrite (lfr_char q), map_map. apply all_some_total. intros k I E.
  assert (NE : ck q k <> []).
  { unfold range_keys in I. apply sdedup_In, in_map_iff in I as [c [<- I]].
    apply filter_In in I as [I R]. intro X.
    assert (J : In c (ck q (c_key c))).
    { apply filter_In. split; [exact I|]. unfold on_key. rewrite R, String.eqb_refl. reflexivity. }
    rewrite X in J. destruct J. }
  destruct (fold_int (ck q k) (empty_range k)) as [IB HB].
  - intros c J. apply filter_In in J as [J O]. unfold on_key in O.
    apply andb_true_iff in O as [O _]. split; [exact O | apply W; assumption].
  - split; left; reflexivity.
  - left. exact NE.
  - fold (merged q k) in IB, HB. destruct (int_range_kind _ IB HB) as [lo [hi RK]].
    unfold range_hits in E. rewrite RK in E. discriminate E.
Qed.

(* C19_tx_search_never_panics *)
Theorem tx_search_typed_no_panic : forall st xq, numeric_ranges xq ->
  tx_search_typed st xq <> SPanic.
Proof.
  intros st xq NR. unfold tx_search_typed.
  destruct (existsb float_range xq) eqn:F; [discriminate|].
  destruct (look_for_hash_r xq); try discriminate; [|destruct (get st h); discriminate].
  assert (A : all_some (map (range_hits st) (look_for_ranges (map base xq))) <> None).
  { apply ranges_answered. intros c I R. apply in_map_iff in I as [x [<- I]].
    cbn [base c_op c_arg] in *. destruct (NR x I R) as [[z ->]|FL]; [eexists; reflexivity|].
    exfalso. assert (X : existsb float_range xq = true).
    { apply existsb_exists. exists x. split; [exact I|]. unfold float_range. rewrite R, FL. reflexivity. }
    congruence. }
  destruct (all_some (map (range_hits st) (look_for_ranges (map base xq)))); [|contradiction].
  destruct (run_steps l false []) as [i1 f1].
  destruct (run_steps _ i1 f1). discriminate.
Qed.

(* ---- the block indexer ---- *)

Lemma fold_int_bounds : forall cs r,
  (forall c, In c cs -> is_range_op (c_op c) = true /\ exists z, c_arg c = OInt z) ->
  int_bounds r -> int_bounds (fold_left (fun r c => apply_cond c r) cs r).
Proof.
  induction cs as [|c cs IH]; intros r W IB; cbn [fold_left]; [exact IB|].
  destruct (W c (or_introl eq_refl)) as [R A]. destruct (apply_int c r R A IB) as [IB' _].
  apply IH; [intros c' I; apply W; right; exact I | exact IB'].
Qed.

Lemma brun_total : forall tmps i f, (forall t, In t tmps -> t <> None) -> brun_steps tmps i f <> None.
Proof.
  induction tmps as [|t r IH]; intros i f W; cbn [brun_steps]; [discriminate|].
  assert (Wr : forall t', In t' r -> t' <> None) by (intros t' I; apply W; right; exact I).
  destruct t as [t|]; [|exfalso; apply (W None); [left; reflexivity | reflexivity]].
  destruct i; [destruct (znil f)|]; apply IH; exact Wr.
Qed.

Lemma int_brange : forall st r, int_bounds r -> brange_hits st r <> None.
Proof.
  intros st r [L H]. unfold brange_hits, lower_value, upper_value.
  destruct L as [L|[zl L]], H as [H|[zh H]]; rewrite L, H;
    destruct (any_is_int r); try discriminate;
    destruct (range_cands st (r_key r)); cbn [is_bad orb]; discriminate.
Qed.

Lemma branges_answered : forall st q,
  (forall c, In c q -> is_range_op (c_op c) = true -> exists z, c_arg c = OInt z) ->
  forall t, In t (map (brange_hits st) (look_for_ranges q)) -> t <> None.
Proof.
  intros st q W t I. rewrite (lfr_char q), map_map in I. apply in_map_iff in I as [k [<- I]].
  apply int_brange. unfold merged. apply fold_int_bounds.
  - intros c J. apply filter_In in J as [J O]. unfold on_key in O.
    apply andb_true_iff in O as [O _]. split; [exact O | apply W; assumption].
  - split; left; reflexivity.
Qed.

(* CONTAINS has a string operand (the grammar: CONTAINS is followed by a quoted string) *)
Definition contains_strings (xq : xquery) : Prop :=
  forall c, In c xq -> x_op c = OpContains -> exists s, x_arg c = XA (OStr s).

Theorem block_search_typed_no_panic : forall st xq, numeric_ranges xq -> contains_strings xq ->
  block_search_typed st xq <> BPanic.
Proof.
  intros st xq NR CS. unfold block_search_typed.
  destruct (existsb float_range xq) eqn:F; [discriminate|]. cbn [orb].
  destruct (existsb float_height xq); [discriminate|]. unfold bsearch.
  assert (A : forall t, In t (map (brange_hits st) (look_for_ranges (map base xq))) -> t <> None).
  { apply branges_answered. intros c I R. apply in_map_iff in I as [x [<- I]].
    cbn [base c_op c_arg] in *. destruct (NR x I R) as [[z ->]|FL]; [eexists; reflexivity|].
    exfalso. assert (X : existsb float_range xq = true).
    { apply existsb_exists. exists x. split; [exact I|]. unfold float_range. rewrite R, FL. reflexivity. }
    congruence. }
  pose proof (brun_total _ false [] A) as N1.
  destruct (brun_steps (map (brange_hits st) (look_for_ranges (map base xq))) false []) as [[i1 f1]|];
    [|contradiction].
  assert (B : forall t, In t (map (bcond_hits st)
                (filter (fun c => negb (is_range_op (c_op c))) (map base xq))) -> t <> None).
  { intros t I. apply in_map_iff in I as [c [<- I]]. apply filter_In in I as [I _].
    apply in_map_iff in I as [x [<- I]]. unfold bcond_hits. cbn [base c_op c_arg c_key].
    destruct (x_op x) eqn:O; try discriminate.
    - destruct (base_arg (x_arg x)); try discriminate.
      destruct (String.eqb (x_key x) BlockHeightKey); discriminate.
    - destruct (CS x I O) as [s ->]. discriminate. }
  pose proof (brun_total _ i1 f1 B) as N2.
  destruct (brun_steps _ i1 f1) as [[i2 f2]|]; [discriminate | contradiction].
Qed.

(* ------------------------------------------------------------------ concrete instances *)

Local Open Scope string_scope.
Definition ty_hist : list iop := [OBatch [mk1 "0" 1 0 [("x", "2")]; mk1 "1" 2 0 [("x", "3")]]].
Definition xc (k : string) (o : opr) (a : xarg) : xcond := {| x_key := k; x_op := o; x_arg := a |}.

(* the repaired Search on the audit's queries: refusals for float bounds and ill-typed tx.hash,
   the generic scan for ill-typed tx.height *)
Example tx_search_typed_nonvacuous :
  let st := run_history ty_hist in
  tx_search_typed st [xc "a.x" OpGt (XFloat 1 true)] = SErr /\
  tx_search_typed st [xc "a.x" OpGe (XFloat 1 true)] = SErr /\
  tx_search_typed st [xc "a.x" OpGt (XA (OInt 1)); xc "a.x" OpLe (XFloat 2 true)] = SErr /\
  tx_search_typed st [xc "a.x" OpEq (XFloat 2 false)] = SOk ["0"] /\
  tx_search_typed st [xc "tx.hash" OpExists (XA ONone)] = SErr /\
  tx_search_typed st [xc "tx.hash" OpEq (XA (OInt 5))] = SErr /\
  tx_search_typed st [xc "tx.height" OpEq (XA (OStr "1"))] = SOk ["0"] /\
  tx_search_typed st [xc "tx.height" OpEq (XFloat 2 false)] = SOk ["1"] /\
  tx_search_typed st [xc "tx.height" OpEq (XA (OTime 1577836800))] = SOk [] /\
  tx_search_typed st [xc "a.x" OpEq (XA (OInt 2)); xc "tx.height" OpEq (XA (OStr "1"))] = SOk ["0"] /\
  tx_search_typed st [xc "a.x" OpGt (XA (OInt 2))] = SOk ["1"].
Proof. vm_compute. repeat split. Qed.

(* F92: the transcription of the unrepaired code (SearchModel.search on the same conditions)
   panics on them *)
Example tx_search_untyped_refuted :
  let st := run_history ty_hist in
  search st (map base [xc "a.x" OpGt (XFloat 1 true)]) = SPanic /\
  search st (map base [xc "tx.hash" OpExists (XA ONone)]) = SPanic /\
  search st (map base [xc "tx.hash" OpEq (XA (OInt 5))]) = SPanic /\
  search st (map base [xc "tx.height" OpEq (XA (OStr "1"))]) = SPanic /\
  search st (map base [xc "tx.height" OpEq (XA (OTime 1577836800))]) = SPanic.
Proof. vm_compute. repeat split. Qed.

Definition ty_bhist : list block := [blk 1 [ev1 "a" [("x", "2")]] []; blk 2 [] [ev1 "a" [("x", "3")]]].

Example block_search_typed_nonvacuous :
  let st := brun ty_bhist in
  block_search_typed st [xc "a.x" OpGt (XFloat 1 true)] = BErr /\
  block_search_typed st [xc "a.x" OpGt (XA (OInt 1)); xc "a.x" OpLe (XFloat 2 true)] = BErr /\
  block_search_typed st [xc "block.height" OpEq (XFloat 1 false)] = BErr /\
  block_search_typed st [xc "a.x" OpEq (XFloat 2 false)] = BOk [1] /\
  block_search_typed st [xc "a.x" OpGt (XA (OInt 2))] = BOk [2].
Proof. vm_compute. repeat split. Qed.

Example block_search_untyped_refuted :
  let st := brun ty_bhist in
  bsearch st (map base [xc "a.x" OpGt (XFloat 1 true)]) = BPanic /\
  bsearch st (map base [xc "a.x" OpGt (XA (OInt 1)); xc "a.x" OpLe (XFloat 2 true)]) = BPanic.
Proof. vm_compute. repeat split. Qed.

Print Assumptions tx_search_typed_agrees.
Print Assumptions tx_search_typed_no_panic.
Print Assumptions block_search_typed_no_panic.
