(* C19 (search half, blocks) — the key-value BLOCK indexer, state/indexer/block/kv/kv.go
   (BlockerIndexer.Index / Has / Search / match / matchRange / indexEvents) and util.go
   (heightKey / eventKey / parseValueFromPrimaryKey / parseValueFromEventKey / lookForHeight),
   with state/indexer/query_range.go (LookForRanges, QueryRange; shared with the transaction
   indexer and taken from SearchModel.v).  NO proofs here.

   The model is of Search AS REPAIRED FOR FINDING F47 (fixes/F47-block-height-shortcut.diff):
   a "block.height = H" condition is evaluated like every other condition (a scan of the
   primary key of H) instead of short-cutting the whole query to Has(H), and lookForHeight no
   longer type-asserts the operand.  The remaining shortcut (the query is the single condition
   block.height = H) returns what the general path returns, so it does not appear here.

   Modelling decisions (tied to the real code by the differential harness
   harness/overlay/state/indexer/block/kv/verif_c19_block_test.go, observable 41):

   * Keys are orderedcode tuples.  The encoding is injective and self-delimiting per item, so
     a key is represented by the tuple itself: [PK h] = orderedcode(block.height, int64 h),
     [EK ck v h typ] = orderedcode(type.attr, value, int64 h, "begin_block"|"end_block").
     A prefix built from items (IteratePrefix) selects exactly the keys whose leading items are
     these items ([bmatch_prefix]); a string item is never a prefix of the encoding of a
     positive int64 item (the primary keys under block.height are not found by a scan for
     block.height followed by a string).
   * The stored value is the varint of the height; Search collects them in a map keyed by
     these bytes: result sets are lists used as sets of heights, sorted at the end.
   * DB Set overwrites (one entry per key); a batch is applied as a whole or not at all.
   * The ranges of LookForRanges are visited in order of first appearance of their key (Go
     iterates a map: any order; the result does not depend on it).
   * int64 overflow of bound+-1 is not modelled (never generated); a stored value that equals
     the %v rendering of a time.Time is never generated ("= TIME/DATE" finds no key). *)
From Coq Require Import String Ascii List ZArith Bool.
From TM Require Import C19.Query C19.SearchModel.
Import ListNotations.
Open Scope Z_scope.

Definition BlockHeightKey : string := "block.height".
Definition BeginTyp : string := "begin_block".
Definition EndTyp : string := "end_block".

(* types.EventDataNewBlockHeader: Header.Height, ResultBeginBlock.Events, ResultEndBlock.Events *)
Record block := { b_height : Z; b_begin : list event; b_end : list event }.

(* ------------------------------------------------------------------ keys and store *)

Inductive bkey :=
| PK (h : Z)
| EK (ck v : string) (h : Z) (typ : string).

Definition bkey_eqb (a b : bkey) : bool :=
  match a, b with
  | PK h, PK h' => h =? h'
  | EK ck v h t, EK ck' v' h' t' =>
    String.eqb ck ck' && String.eqb v v' && (h =? h') && String.eqb t t'
  | _, _ => false
  end.

(* key -> int64ToBytes(height) *)
Definition bstore := list (bkey * Z).

Definition bset (k : bkey) (h : Z) (st : bstore) : bstore :=
  (k, h) :: filter (fun e => negb (bkey_eqb (fst e) k)) st.

(* ------------------------------------------------------------------ Index *)

(* the attributes indexEvents looks at, in order: (type.key, value, Index flag) of every
   attribute with a non-empty key of every event with a non-empty type *)
Definition ev_attrs (e : event) : list (string * string * bool) :=
  if is_empty (e_type e) then []
  else flat_map (fun a => if is_empty (a_key a) then []
                          else [((e_type e ++ "." ++ a_key a)%string, a_val a, a_index a)])
                (e_attrs e).
Definition all_attrs (evs : list event) : list (string * string * bool) := flat_map ev_attrs evs.

(* "event type and attribute key block.height is reserved" (checked before the Index flag) *)
Definition reserved (evs : list event) : bool :=
  existsb (fun x => String.eqb (fst (fst x)) BlockHeightKey) (all_attrs evs).

(* (type.key, value) of the attributes a key is written for *)
Definition indexed_of (evs : list event) : list (string * string) :=
  map (fun x => (fst (fst x), snd (fst x))) (filter (fun x => snd x) (all_attrs evs)).

(* Index returns nil *)
Definition index_ok (b : block) : bool := negb (reserved (b_begin b) || reserved (b_end b)).

(* the keys of the batch, in the order they are set *)
Definition bkeys (b : block) : list bkey :=
  PK (b_height b)
  :: map (fun tv => EK (fst tv) (snd tv) (b_height b) BeginTyp) (indexed_of (b_begin b))
  ++ map (fun tv => EK (fst tv) (snd tv) (b_height b) EndTyp) (indexed_of (b_end b)).

(* BlockerIndexer.Index: the new store and whether nil was returned *)
Definition bindex (st : bstore) (b : block) : bstore * bool :=
  if index_ok b
  then (fold_left (fun s k => bset k (b_height b) s) (bkeys b) st, true)
  else (st, false).

Definition brun (hist : list block) : bstore := fold_left (fun st b => fst (bindex st b)) hist [].

(* BlockerIndexer.Has *)
Definition bhas (st : bstore) (h : Z) : bool := existsb (fun e => bkey_eqb (fst e) (PK h)) st.

(* ------------------------------------------------------------------ reference semantics *)

(* what a block is indexed under: its indexed BeginBlock attributes, its indexed EndBlock
   attributes, its height *)
Definition blk_attrs (b : block) : list (string * string) :=
  indexed_of (b_begin b) ++ indexed_of (b_end b) ++ [(BlockHeightKey, dec (b_height b))].

(* the events of a block as the query matcher sees them (restricted, as for transactions, to
   what the indexer is asked to index) *)
Definition blk_events (b : block) : events := group (blk_attrs b).

(* ------------------------------------------------------------------ Search *)

(* prefixes handed to dbm.IteratePrefix *)
Inductive bprefix :=
| P1 (k : string)              (* orderedcode(k) *)
| P2 (k v : string)            (* orderedcode(k, v) *)
| PH (h : Z).                  (* heightKey(h) = orderedcode(block.height, int64 h) *)

Definition bmatch_prefix (p : bprefix) (k : bkey) : bool :=
  match p, k with
  | P1 s, PK _ => String.eqb s BlockHeightKey
  | P1 s, EK ck _ _ _ => String.eqb s ck
  | P2 s v, EK ck v' _ _ => String.eqb s ck && String.eqb v v'
  | P2 _ _, PK _ => false
  | PH h, PK h' => h =? h'
  | PH _, EK _ _ _ _ => false
  end.

Definition bscan (st : bstore) (p : bprefix) : bstore :=
  filter (fun e => bmatch_prefix p (fst e)) st.

(* matchRange: parseValueFromPrimaryKey when the range is on block.height, else
   parseValueFromEventKey; a key of the other shape does not parse and is skipped *)
Definition range_value (on_height : bool) (k : bkey) : option string :=
  match k, on_height with
  | PK h, true => Some (dec h)
  | EK _ v _ _, false => Some v
  | _, _ => None
  end.

(* QueryRange.LowerBoundValue / UpperBoundValue followed by the .(int64) assertion of
   matchRange.  BBad: the assertion panics when it is evaluated (an inclusive TIME/DATE
   bound is returned as a time.Time).  None: LowerBoundValue itself panics ("not
   implemented"; operands the grammar does not produce). *)
Inductive bound := BNone | BInt (z : Z) | BBad.
Definition lower_value (r : qrange) : option bound :=
  match r_lo r with
  | None => Some BNone
  | Some (OInt z) => Some (BInt (if r_inclo r then z else z + 1))
  | Some (OTime t) => Some (if r_inclo r then BBad else BInt (t + 1))
  | Some _ => if r_inclo r then Some BBad else None
  end.
Definition upper_value (r : qrange) : option bound :=
  match r_hi r with
  | None => Some BNone
  | Some (OInt z) => Some (BInt (if r_inchi r then z else z - 1))
  | Some (OTime t) => Some (if r_inchi r then BBad else BInt (t - 1))
  | Some _ => if r_inchi r then Some BBad else None
  end.

(* qr.AnyBound().(int64) succeeds *)
Definition any_is_int (r : qrange) : bool :=
  match (match r_lo r with Some b => Some b | None => r_hi r end) with
  | Some (OInt _) => true
  | _ => false
  end.

Definition is_bad (b : bound) : bool := match b with BBad => true | _ => false end.
Definition lo_ok (b : bound) (v : Z) : bool := match b with BInt l => l <=? v | _ => true end.
Definition hi_ok (b : bound) (v : Z) : bool := match b with BInt h => v <=? h | _ => true end.

(* the (integer value, height) pairs a range scan compares: keys under the prefix whose value
   parses with strconv.ParseInt *)
Definition range_cands (st : bstore) (k : string) : list (Z * Z) :=
  flat_map (fun e =>
    match range_value (String.eqb k BlockHeightKey) (fst e) with
    | Some s => match parse_int_go s with Some v => [(v, snd e)] | None => [] end
    | None => []
    end) (bscan st (P1 k)).

(* the heights collected by one matchRange scan (tmpHeights); None = panic *)
Definition brange_hits (st : bstore) (r : qrange) : option (list Z) :=
  match lower_value r, upper_value r with
  | Some lo, Some hi =>
    if any_is_int r then
      match range_cands st (r_key r) with
      | [] => Some []
      | cands =>
        if is_bad lo || is_bad hi then None
        else Some (map snd (filter (fun vh => lo_ok lo (fst vh) && hi_ok hi (fst vh)) cands))
      end
    else Some []           (* AnyBound is a time.Time: nothing is ever included *)
  | _, _ => None
  end.

(* the heights collected by one match scan (tmpHeights); None = panic *)
Definition bcond_hits (st : bstore) (c : cond) : option (list Z) :=
  match c_op c with
  | OpEq =>
    match c_arg c with
    | OInt z =>
      if String.eqb (c_key c) BlockHeightKey
      then Some (map snd (bscan st (PH z)))
      else Some (map snd (bscan st (P2 (c_key c) (dec z))))
    | OStr s => Some (map snd (bscan st (P2 (c_key c) s)))
    | OTime _ => Some []
    | ONone => Some (map snd (bscan st (P2 (c_key c) "<nil>")))
    end
  | OpExists => Some (map snd (bscan st (P1 (c_key c))))
  | OpContains =>
    match c_arg c with
    | OStr s =>
      Some (flat_map (fun e =>
              match fst e with
              | EK _ v _ _ => if str_contains s v then [snd e] else []
              | PK _ => []            (* parseValueFromEventKey fails on a primary key *)
              end) (bscan st (P1 (c_key c))))
    | _ => None                       (* c.Operand.(string) *)
    end
  | _ => Some []                      (* range operators are handled before *)
  end.

Fixpoint zmem (x : Z) (l : list Z) : bool :=
  match l with [] => false | y :: r => (x =? y) || zmem x r end.
Definition znil (l : list Z) : bool := match l with [] => true | _ => false end.

(* both loops of Search: heightsInitialized, filteredHeights, the early return of
   match/matchRange on an empty filteredHeights (the scan is not executed: no panic), the
   break on an empty first result (which leaves heightsInitialized = true and an empty set,
   so every later condition is skipped).  None = a scan that was executed panicked. *)
Fixpoint brun_steps (tmps : list (option (list Z))) (init : bool) (f : list Z)
  : option (bool * list Z) :=
  match tmps with
  | [] => Some (init, f)
  | tmp :: rest =>
    if init then
      if znil f then brun_steps rest true f
      else match tmp with
           | None => None
           | Some t => brun_steps rest true (if znil t then t else filter (fun h => zmem h t) f)
           end
    else match tmp with
         | None => None
         | Some t => brun_steps rest true t
         end
  end.

(* sort.Slice(results, <) on the heights of a map: ascending, no duplicates *)
Fixpoint zinsert (x : Z) (l : list Z) : list Z :=
  match l with
  | [] => [x]
  | y :: r => if x <? y then x :: l else if x =? y then l else y :: zinsert x r
  end.
Definition zsort (l : list Z) : list Z := fold_right zinsert [] l.

Inductive bres := BOk (hs : list Z) | BErr | BPanic.

(* BlockerIndexer.Search *)
Definition bsearch (st : bstore) (q : query) : bres :=
  match brun_steps (map (brange_hits st) (look_for_ranges q)) false [] with
  | None => BPanic
  | Some (i1, f1) =>
    let others := filter (fun c => negb (is_range_op (c_op c))) q in
    match brun_steps (map (bcond_hits st) others) i1 f1 with
    | None => BPanic
    | Some (_, f2) => BOk (zsort (filter (bhas st) f2))
    end
  end.

(* ------------------------------------------------------------------ the ORIGINAL Search (finding F47) *)

(* lookForHeight of the original code: the first "block.height = ..." condition; its operand is
   type-asserted to int64 (None = panic) *)
Inductive hlook := HLNone | HLFound (h : Z) | HLPanic.
Fixpoint look_for_bheight (q : query) : hlook :=
  match q with
  | [] => HLNone
  | c :: r =>
    if String.eqb (c_key c) BlockHeightKey && match c_op c with OpEq => true | _ => false end
    then match c_arg c with OInt z => HLFound z | _ => HLPanic end
    else look_for_bheight r
  end.

(* the original Search: ANY block.height = H condition short-cuts the whole query to Has(H) *)
Definition bsearch_original (st : bstore) (q : query) : bres :=
  match look_for_bheight q with
  | HLPanic => BPanic
  | HLFound h => BOk (if bhas st h then [h] else [])
  | HLNone => bsearch st q
  end.
