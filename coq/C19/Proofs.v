(* C19 — proofs about the pub/sub model (Model.v).  Main result: for every history, every
   map-iteration order and every pair k = (client, query), what k observes in the full server is
   exactly the state of the one-subscriber automaton [solo] run on the same history
   ([proj_run]); delivery exactness and isolation are corollaries. *)
From Coq Require Import String List ZArith Bool Arith Lia Permutation.
From TM Require Import C19.Query C19.Model.
Import ListNotations.
Local Open Scope nat_scope.

(* ------------------------------------------------------------------ association lists *)

Section AssocFacts.
  Context {K V : Type}.
  Variable eqb : K -> K -> bool.
  Hypothesis eqb_spec : forall a b, eqb a b = true <-> a = b.

  Lemma eqb_refl' : forall a, eqb a a = true.
  Proof. intro a. apply eqb_spec. reflexivity. Qed.

  Lemma eqb_false : forall a b, eqb a b = false <-> a <> b.
  Proof.
    intros a b. split.
    - intros E H. apply eqb_spec in H. congruence.
    - intro H. destruct (eqb a b) eqn:E; [apply eqb_spec in E; contradiction | reflexivity].
  Qed.

  Lemma eqb_sym' : forall a b, eqb a b = eqb b a.
  Proof.
    intros a b. destruct (eqb a b) eqn:E.
    - apply eqb_spec in E. subst. symmetry. apply eqb_refl'.
    - symmetry. apply eqb_false. apply eqb_false in E. congruence.
  Qed.

  Lemma alookup_aset : forall (l : list (K * V)) k v k',
    alookup eqb k' (aset eqb k v l) = if eqb k' k then Some v else alookup eqb k' l.
  Proof.
    induction l as [|[k0 v0] l IH]; intros k v k'; cbn.
    - reflexivity.
    - destruct (eqb k k0) eqn:E; cbn.
      + apply eqb_spec in E. subst k0. destruct (eqb k' k); reflexivity.
      + destruct (eqb k' k0) eqn:E2.
        * apply eqb_spec in E2. subst k0. rewrite eqb_sym', E. reflexivity.
        * apply IH.
  Qed.

  Lemma alookup_adel : forall (l : list (K * V)) k k',
    alookup eqb k' (adel eqb k l) = if eqb k' k then None else alookup eqb k' l.
  Proof.
    induction l as [|[k0 v0] l IH]; intros k k'; cbn.
    - destruct (eqb k' k); reflexivity.
    - destruct (eqb k k0) eqn:E; cbn.
      + apply eqb_spec in E. subst k0. rewrite IH. destruct (eqb k' k); reflexivity.
      + destruct (eqb k' k0) eqn:E2.
        * apply eqb_spec in E2. subst k0. rewrite eqb_sym', E. reflexivity.
        * apply IH.
  Qed.

  Lemma keys_aset_in : forall (l : list (K * V)) k v x,
    In x (map fst (aset eqb k v l)) <-> x = k \/ In x (map fst l).
  Proof.
    induction l as [|[k0 v0] l IH]; intros k v x; cbn.
    - intuition.
    - destruct (eqb k k0) eqn:E; cbn.
      + apply eqb_spec in E. subst k0. intuition.
      + rewrite IH. intuition.
  Qed.

  Lemma nodup_aset : forall (l : list (K * V)) k v,
    NoDup (map fst l) -> NoDup (map fst (aset eqb k v l)).
  Proof.
    induction l as [|[k0 v0] l IH]; intros k v H; cbn.
    - constructor; [intros []|constructor].
    - inversion H as [|? ? Hn Hd]; subst. destruct (eqb k k0) eqn:E; cbn.
      + apply eqb_spec in E. subst k0. constructor; assumption.
      + constructor.
        * rewrite keys_aset_in. intros [->|Hin]; [|contradiction].
          rewrite eqb_refl' in E. discriminate.
        * apply IH. assumption.
  Qed.

  Lemma keys_adel_in : forall (l : list (K * V)) k x,
    In x (map fst (adel eqb k l)) -> In x (map fst l).
  Proof.
    induction l as [|[k0 v0] l IH]; intros k x; cbn.
    - auto.
    - destruct (eqb k k0); cbn; intros H.
      + right. eapply IH. eassumption.
      + destruct H as [H|H]; [left; assumption | right; eapply IH; eassumption].
  Qed.

  Lemma nodup_adel : forall (l : list (K * V)) k,
    NoDup (map fst l) -> NoDup (map fst (adel eqb k l)).
  Proof.
    induction l as [|[k0 v0] l IH]; intros k H; cbn.
    - constructor.
    - inversion H as [|? ? Hn Hd]; subst. destruct (eqb k k0); cbn.
      + apply IH. assumption.
      + constructor; [|apply IH; assumption].
        intro Hin. apply Hn. eapply keys_adel_in. eassumption.
  Qed.

  Lemma alookup_in : forall (l : list (K * V)) k v,
    alookup eqb k l = Some v -> In (k, v) l.
  Proof.
    induction l as [|[k0 v0] l IH]; intros k v; cbn.
    - discriminate.
    - destruct (eqb k k0) eqn:E.
      + apply eqb_spec in E. subst k0. intros [= ->]. left. reflexivity.
      + intro H. right. apply IH. assumption.
  Qed.

  Lemma in_alookup : forall (l : list (K * V)) k v,
    NoDup (map fst l) -> In (k, v) l -> alookup eqb k l = Some v.
  Proof.
    induction l as [|[k0 v0] l IH]; intros k v Hd Hin; cbn.
    - destruct Hin.
    - inversion Hd as [|? ? Hn Hd']; subst. destruct Hin as [Hin|Hin].
      + inversion Hin; subst. rewrite eqb_refl'. reflexivity.
      + destruct (eqb k k0) eqn:E.
        * apply eqb_spec in E. subst k0. exfalso. apply Hn.
          change k with (fst (k, v)). apply in_map. assumption.
        * apply IH; assumption.
  Qed.

  Lemma alookup_none : forall (l : list (K * V)) k,
    alookup eqb k l = None -> ~ In k (map fst l).
  Proof.
    induction l as [|[k0 v0] l IH]; intros k; cbn.
    - auto.
    - destruct (eqb k k0) eqn:E; [discriminate|].
      intros H [H1|H1].
      + subst k0. rewrite eqb_refl' in E. discriminate.
      + eapply IH; eassumption.
  Qed.

  Lemma alookup_perm : forall (l l' : list (K * V)) k,
    Permutation l l' -> NoDup (map fst l) -> alookup eqb k l = alookup eqb k l'.
  Proof.
    intros l l' k Hp Hd.
    assert (Hd' : NoDup (map fst l')).
    { eapply Permutation_NoDup; [apply Permutation_map; eassumption | assumption]. }
    destruct (alookup eqb k l) eqn:E.
    - symmetry. apply in_alookup; [assumption|].
      eapply Permutation_in; [eassumption|]. apply alookup_in. assumption.
    - destruct (alookup eqb k l') eqn:E'; [|reflexivity].
      exfalso. apply alookup_none in E. apply E.
      apply alookup_in in E'. apply Permutation_sym in Hp.
      change k with (fst (k, v)). apply in_map. eapply Permutation_in; eassumption.
  Qed.
End AssocFacts.

Lemma nat_eqb_spec : forall a b, Nat.eqb a b = true <-> a = b.
Proof. intros. apply Nat.eqb_eq. Qed.

Lemma key_eqb_spec : forall a b, key_eqb a b = true <-> a = b.
Proof.
  intros [a1 a2] [b1 b2]. unfold key_eqb. cbn. rewrite andb_true_iff, !Nat.eqb_eq.
  split; [intros [-> ->]; reflexivity | intros [= -> ->]; auto].
Qed.

Lemma key_eqb_refl : forall a, key_eqb a a = true.
Proof. intro. apply key_eqb_spec. reflexivity. Qed.

Lemma key_eqb_sym : forall a b, key_eqb a b = key_eqb b a.
Proof. intros. apply (eqb_sym' key_eqb key_eqb_spec). Qed.

Lemma key_eqb_false : forall a b, key_eqb a b = false <-> a <> b.
Proof. intros. apply (eqb_false key_eqb key_eqb_spec). Qed.

(* ------------------------------------------------------------------ client lists *)

Lemma memn_in : forall x l, memn x l = true <-> In x l.
Proof.
  intros x l. unfold memn. rewrite existsb_exists. split.
  - intros [y [Hy E]]. apply Nat.eqb_eq in E. subst. assumption.
  - intro H. exists x. split; [assumption | apply Nat.eqb_refl].
Qed.

Lemma memn_app : forall x l l', memn x (l ++ l') = memn x l || memn x l'.
Proof. intros. unfold memn. apply existsb_app. Qed.

Lemma memn_deln : forall x c l, memn x (deln c l) = memn x l && negb (Nat.eqb x c).
Proof.
  intros x c l. unfold memn, deln. induction l as [|y l IH]; cbn [filter existsb].
  - reflexivity.
  - destruct (Nat.eqb c y) eqn:E; cbn [negb existsb].
    + apply Nat.eqb_eq in E. subst y. rewrite IH.
      destruct (Nat.eqb x c); cbn; [rewrite andb_false_r; reflexivity | reflexivity].
    + rewrite IH. destruct (Nat.eqb x y) eqn:E2; cbn; [|reflexivity].
      apply Nat.eqb_eq in E2. subst y. rewrite Nat.eqb_sym, E. reflexivity.
Qed.

Lemma nodup_deln : forall c l, NoDup l -> NoDup (deln c l).
Proof. intros. unfold deln. apply NoDup_filter. assumption. Qed.

Lemma nodup_snoc : forall (c : nat) l, NoDup l -> ~ In c l -> NoDup (l ++ [c]).
Proof.
  intros c l. induction l as [|y l IH]; intros Hd Hn; cbn.
  - constructor; [intros []|constructor].
  - inversion Hd as [|? ? Hy Hd']; subst. constructor.
    + rewrite in_app_iff. intros [H|[H|[]]]; [contradiction|]. subst. apply Hn. left. reflexivity.
    + apply IH; [assumption|]. intro H. apply Hn. right. assumption.
Qed.

Lemma deln_notin : forall c l, ~ In c l -> deln c l = l.
Proof.
  intros c l. unfold deln. induction l as [|z l IH]; cbn [filter]; intro Hn; [reflexivity|].
  destruct (Nat.eqb c z) eqn:E; cbn [negb].
  - apply Nat.eqb_eq in E. subst z. exfalso. apply Hn. left. reflexivity.
  - f_equal. apply IH. intro H. apply Hn. right. assumption.
Qed.

Lemma deln_cons : forall c y l,
  deln c (y :: l) = if Nat.eqb c y then deln c l else y :: deln c l.
Proof. intros. unfold deln. cbn [filter]. destruct (Nat.eqb c y); reflexivity. Qed.

Lemma length_deln : forall c l, NoDup l -> In c l -> S (length (deln c l)) = length l.
Proof.
  intros c l. induction l as [|y l IH]; intros Hd Hin.
  - destruct Hin.
  - inversion Hd as [|? ? Hn Hd']; subst. rewrite deln_cons.
    destruct (Nat.eqb c y) eqn:E.
    + apply Nat.eqb_eq in E. subst y. rewrite deln_notin by assumption. reflexivity.
    + cbn [length]. f_equal. apply IH; [assumption|]. destruct Hin as [->|Hin]; [|assumption].
      rewrite Nat.eqb_refl in E. discriminate.
Qed.

(* ------------------------------------------------------------------ well-formed server states *)

Definition view (k : key) (s : st) : bool * option chan :=
  (in_table k s, alookup key_eqb k (heap s)).

Record wf (s : st) : Prop := {
  wf_keys : NoDup (map fst (subs s));
  wf_clients : forall q cl, alookup Nat.eqb q (subs s) = Some cl -> cl <> [] /\ NoDup cl;
  wf_refcount : forall q, alookup Nat.eqb q (queries s) =
                          option_map (fun cl => Z.of_nat (length cl)) (alookup Nat.eqb q (subs s));
  wf_outer : forall k, in_table k s = true -> has_key k (outer s) = true;
  wf_nopanic : panicked s = false
}.

Lemma wf_init : wf init.
Proof.
  constructor; cbn; intros; try discriminate; try reflexivity. constructor.
Qed.

Lemma has_key_in : forall k o, has_key k o = true <-> In k o.
Proof.
  intros k o. unfold has_key. rewrite existsb_exists. split.
  - intros [y [Hy E]]. apply key_eqb_spec in E. subst. assumption.
  - intro H. exists k. split; [assumption | apply key_eqb_refl].
Qed.

(* -- add *)

Lemma in_table_add : forall s c q cap k,
  in_table k (add s c q cap) = key_eqb k (c, q) || in_table k s.
Proof.
  intros s c q cap [c' q']. unfold in_table, add. cbn.
  rewrite (alookup_aset Nat.eqb nat_eqb_spec). unfold key_eqb. cbn.
  destruct (Nat.eqb q' q) eqn:E.
  - apply Nat.eqb_eq in E. subst q'.
    destruct (alookup Nat.eqb q (subs s)) as [cl|] eqn:El.
    + destruct (memn c cl) eqn:Em.
      * rewrite andb_true_r. destruct (Nat.eqb c' c) eqn:E2; [|reflexivity].
        apply Nat.eqb_eq in E2. subst. cbn. assumption.
      * rewrite memn_app. cbn. rewrite andb_true_r, orb_false_r. apply orb_comm.
    + cbn. rewrite andb_true_r, !orb_false_r. reflexivity.
  - rewrite andb_false_r. reflexivity.
Qed.

Lemma heap_add : forall s c q cap k,
  alookup key_eqb k (heap (add s c q cap)) =
  if key_eqb k (c, q) then Some (new_chan cap) else alookup key_eqb k (heap s).
Proof.
  intros. unfold add. cbn. apply (alookup_aset key_eqb key_eqb_spec).
Qed.

Lemma outer_add : forall s c q cap, outer (add s c q cap) = outer s.
Proof. reflexivity. Qed.

Lemma wf_add : forall s c q cap,
  wf s -> in_table (c, q) s = false ->
  wf (set_outer (add s c q cap) (outer s ++ [(c, q)])).
Proof.
  intros s c q cap W Hn.
  assert (Hcl : forall cl, alookup Nat.eqb q (subs s) = Some cl -> memn c cl = false).
  { intros cl E. unfold in_table in Hn. cbn in Hn. rewrite E in Hn. assumption. }
  constructor.
  - cbn. apply (nodup_aset Nat.eqb nat_eqb_spec). apply (wf_keys _ W).
  - intros q' cl'. cbn. rewrite (alookup_aset Nat.eqb nat_eqb_spec).
    destruct (Nat.eqb q' q) eqn:E.
    + intros [= <-]. destruct (alookup Nat.eqb q (subs s)) as [cl|] eqn:El.
      * rewrite (Hcl _ eq_refl). destruct (wf_clients _ W _ _ El) as [_ Hd]. split.
        { destruct cl; discriminate. }
        { apply nodup_snoc; [assumption|]. intro Hx. apply memn_in in Hx.
          rewrite (Hcl _ eq_refl) in Hx. discriminate. }
      * cbn. split; [discriminate | constructor; [intros []|constructor]].
    + apply (wf_clients _ W).
  - intro q'. cbn. rewrite !(alookup_aset Nat.eqb nat_eqb_spec).
    destruct (Nat.eqb q' q) eqn:E; [|apply (wf_refcount _ W)].
    apply Nat.eqb_eq in E. subst q'. cbn. rewrite (wf_refcount _ W q).
    destruct (alookup Nat.eqb q (subs s)) as [cl|] eqn:El; cbn.
    + rewrite (Hcl _ eq_refl). rewrite app_length. cbn. f_equal. lia.
    + reflexivity.
  - intros k Hk. change (in_table k (add s c q cap) = true) in Hk.
    cbn [outer set_outer]. rewrite in_table_add in Hk. unfold has_key. rewrite existsb_app. cbn.
    destruct (key_eqb k (c, q)) eqn:E; cbn in *.
    + rewrite orb_true_r. reflexivity.
    + rewrite orb_false_r. apply (wf_outer _ W). assumption.
  - cbn. apply (wf_nopanic _ W).
Qed.

(* -- remove *)

Lemma heap_upd_lookup : forall f k h k',
  alookup key_eqb k' (heap_upd f k h) =
  if key_eqb k' k then option_map f (alookup key_eqb k' h) else alookup key_eqb k' h.
Proof.
  intros f k h k'. unfold heap_upd. destruct (alookup key_eqb k h) as [ch|] eqn:E.
  - rewrite (alookup_aset key_eqb key_eqb_spec). destruct (key_eqb k' k) eqn:E2; [|reflexivity].
    apply key_eqb_spec in E2. subst k'. rewrite E. reflexivity.
  - destruct (key_eqb k' k) eqn:E2; [|reflexivity].
    apply key_eqb_spec in E2. subst k'. rewrite E. reflexivity.
Qed.

Lemma remove_notin : forall s c q r, in_table (c, q) s = false -> remove s c q r = s.
Proof.
  intros s c q r H. unfold in_table in H. cbn in H. unfold remove.
  destruct (alookup Nat.eqb q (subs s)) as [cl|]; [|reflexivity]. rewrite H. reflexivity.
Qed.

Definition subs_without (s : st) (c q : nat) (cl : list nat) : list (nat * list nat) :=
  match deln c cl with
  | [] => adel Nat.eqb q (subs s)
  | _ => aset Nat.eqb q (deln c cl) (subs s)
  end.

Lemma remove_in : forall s c q r cl,
  alookup Nat.eqb q (subs s) = Some cl -> memn c cl = true ->
  subs (remove s c q r) = subs_without s c q cl /\
  heap (remove s c q r) = heap_upd (chan_cancel r) (c, q) (heap s) /\
  outer (remove s c q r) = outer s /\
  (forall n, alookup Nat.eqb q (queries s) = Some n ->
     panicked (remove s c q r) = panicked s /\
     queries (remove s c q r) =
       if ((n - 1) =? 0)%Z then adel Nat.eqb q (queries s) else aset Nat.eqb q (n - 1)%Z (queries s)).
Proof.
  intros s c q r cl El Em. unfold remove. rewrite El, Em. cbn [queries set_subs set_heap].
  destruct (alookup Nat.eqb q (queries s)) as [n|] eqn:Eq.
  - split; [reflexivity|split; [reflexivity|split; [reflexivity|]]].
    intros n' [= <-]. split; reflexivity.
  - split; [reflexivity|split; [reflexivity|split; [reflexivity|]]]. intros n' [=].
Qed.

Lemma in_table_subs_without : forall s c q cl k,
  alookup Nat.eqb q (subs s) = Some cl ->
  match alookup Nat.eqb (snd k) (subs_without s c q cl) with
  | Some l => memn (fst k) l | None => false end =
  if key_eqb k (c, q) then false else in_table k s.
Proof.
  intros s c q cl [c' q'] El. unfold subs_without, in_table, key_eqb. cbn [fst snd].
  destruct (Nat.eqb q' q) eqn:E.
  - apply Nat.eqb_eq in E. subst q'. rewrite El, andb_true_r.
    destruct (deln c cl) as [|y l'] eqn:Ed.
    + rewrite (alookup_adel Nat.eqb nat_eqb_spec), Nat.eqb_refl.
      pose proof (memn_deln c' c cl) as H. rewrite Ed in H. cbn in H.
      destruct (Nat.eqb c' c); [reflexivity|]. cbn in H. rewrite andb_true_r in H. assumption.
    + rewrite (alookup_aset Nat.eqb nat_eqb_spec), Nat.eqb_refl. rewrite <- Ed, memn_deln.
      destruct (Nat.eqb c' c); cbn; [apply andb_false_r | apply andb_true_r].
  - rewrite andb_false_r.
    destruct (deln c cl) as [|y l'].
    + rewrite (alookup_adel Nat.eqb nat_eqb_spec), E. reflexivity.
    + rewrite (alookup_aset Nat.eqb nat_eqb_spec), E. reflexivity.
Qed.

Lemma in_table_remove : forall s c q r k,
  in_table k (remove s c q r) = if key_eqb k (c, q) then false else in_table k s.
Proof.
  intros s c q r k. destruct (in_table (c, q) s) eqn:Ht.
  - unfold in_table in Ht. cbn [fst snd] in Ht.
    destruct (alookup Nat.eqb q (subs s)) as [cl|] eqn:El; [|discriminate].
    destruct (remove_in s c q r cl El Ht) as [Hs _].
    unfold in_table at 1. rewrite Hs. apply in_table_subs_without. assumption.
  - rewrite remove_notin by assumption.
    destruct (key_eqb k (c, q)) eqn:E; [|reflexivity]. apply key_eqb_spec in E. subst k. assumption.
Qed.

Lemma heap_remove : forall s c q r k,
  alookup key_eqb k (heap (remove s c q r)) =
  if key_eqb k (c, q) && in_table (c, q) s
  then option_map (chan_cancel r) (alookup key_eqb k (heap s))
  else alookup key_eqb k (heap s).
Proof.
  intros s c q r k. destruct (in_table (c, q) s) eqn:Ht.
  - unfold in_table in Ht. cbn [fst snd] in Ht.
    destruct (alookup Nat.eqb q (subs s)) as [cl|] eqn:El; [|discriminate].
    destruct (remove_in s c q r cl El Ht) as [_ [Hh _]]. rewrite Hh, heap_upd_lookup, andb_true_r.
    reflexivity.
  - rewrite remove_notin by assumption. rewrite andb_false_r. reflexivity.
Qed.

Lemma outer_remove : forall s c q r, outer (remove s c q r) = outer s.
Proof.
  intros s c q r. destruct (in_table (c, q) s) eqn:Ht.
  - unfold in_table in Ht. cbn [fst snd] in Ht.
    destruct (alookup Nat.eqb q (subs s)) as [cl|] eqn:El; [|discriminate].
    destruct (remove_in s c q r cl El Ht) as [_ [_ [Ho _]]]. assumption.
  - rewrite remove_notin by assumption. reflexivity.
Qed.

Lemma wf_remove : forall s c q r, wf s -> wf (remove s c q r).
Proof.
  intros s c q r W. destruct (in_table (c, q) s) eqn:Ht.
  2:{ rewrite remove_notin by assumption. assumption. }
  pose proof Ht as Ht'. unfold in_table in Ht. cbn [fst snd] in Ht.
  destruct (alookup Nat.eqb q (subs s)) as [cl|] eqn:El; [|discriminate].
  destruct (remove_in s c q r cl El Ht) as [Hs [Hh [Ho Hq]]].
  destruct (wf_clients _ W _ _ El) as [Hne Hnd].
  assert (En : alookup Nat.eqb q (queries s) = Some (Z.of_nat (length cl))).
  { rewrite (wf_refcount _ W), El. reflexivity. }
  destruct (Hq _ En) as [Hp Hq'].
  assert (Hlen : S (length (deln c cl)) = length cl).
  { apply length_deln; [assumption | apply memn_in; assumption]. }
  constructor.
  - rewrite Hs. unfold subs_without. destruct (deln c cl).
    + apply (nodup_adel Nat.eqb). apply (wf_keys _ W).
    + apply (nodup_aset Nat.eqb nat_eqb_spec). apply (wf_keys _ W).
  - intros q' cl'. rewrite Hs. unfold subs_without.
    destruct (deln c cl) as [|y l'] eqn:Ed.
    + rewrite (alookup_adel Nat.eqb nat_eqb_spec). destruct (Nat.eqb q' q); [discriminate|].
      apply (wf_clients _ W).
    + rewrite (alookup_aset Nat.eqb nat_eqb_spec). destruct (Nat.eqb q' q).
      * intros [= <-]. split; [discriminate|]. rewrite <- Ed. apply nodup_deln. assumption.
      * apply (wf_clients _ W).
  - intro q'. rewrite Hq', Hs. unfold subs_without.
    destruct (deln c cl) as [|y l'] eqn:Ed.
    + cbn [length] in Hlen. rewrite <- Hlen. cbn [Z.of_nat Z.sub Z.eqb Pos.of_succ_nat Z.pos_sub].
      change ((1 - 1 =? 0)%Z) with true. cbn iota.
      rewrite !(alookup_adel Nat.eqb nat_eqb_spec). destruct (Nat.eqb q' q); [reflexivity|].
      apply (wf_refcount _ W).
    + assert (Hz : ((Z.of_nat (length cl) - 1)%Z =? 0)%Z = false).
      { apply Z.eqb_neq. cbn [length] in Hlen. lia. }
      rewrite Hz. rewrite !(alookup_aset Nat.eqb nat_eqb_spec). destruct (Nat.eqb q' q).
      * cbn [option_map]. f_equal. lia.
      * apply (wf_refcount _ W).
  - intros k Hk. rewrite Ho. rewrite in_table_remove in Hk.
    destruct (key_eqb k (c, q)); [discriminate|]. apply (wf_outer _ W). assumption.
  - rewrite Hp. apply (wf_nopanic _ W).
Qed.

(* ------------------------------------------------------------------ views *)

Definition cancel_view (r : reason) (v : bool * option chan) : bool * option chan :=
  (false, if fst v then option_map (chan_cancel r) (snd v) else snd v).

Definition push_view (m : nat) (v : bool * option chan) : bool * option chan :=
  match snd v with
  | Some ch =>
    if negb (Nat.eqb (ch_cap ch) 0) && chan_full ch
    then (false, Some (chan_cancel OutOfCapacity ch))
    else (fst v, Some (chan_push m ch))
  | None => v
  end.

Lemma cancel_view_idem : forall r v, cancel_view r (cancel_view r v) = cancel_view r v.
Proof. intros r [b o]. reflexivity. Qed.

Lemma view_remove : forall s c q r k,
  view k (remove s c q r) = if key_eqb k (c, q) then cancel_view r (view k s) else view k s.
Proof.
  intros s c q r k. unfold view, cancel_view. rewrite in_table_remove, heap_remove. cbn [fst snd].
  destruct (key_eqb k (c, q)) eqn:E; [|reflexivity].
  apply key_eqb_spec in E. subst k. cbn [andb]. reflexivity.
Qed.

Lemma wf_set_heap : forall s h, wf s -> wf (set_heap s h).
Proof. intros s h [A B C D E]. constructor; assumption. Qed.

Lemma view_set_heap : forall s k ch k',
  view k' (set_heap s (aset key_eqb k ch (heap s))) =
  if key_eqb k' k then (in_table k' s, Some ch) else view k' s.
Proof.
  intros. unfold view. cbn [heap set_heap].
  rewrite (alookup_aset key_eqb key_eqb_spec).
  change (in_table k' (set_heap s (aset key_eqb k ch (heap s)))) with (in_table k' s).
  destruct (key_eqb k' k); reflexivity.
Qed.

(* -- removeClient *)

Lemma remove_client_fold : forall c r (L : list (nat * list nat)) s, wf s ->
  let s' := fold_left (fun s' (e : nat * list nat) =>
                         if memn c (snd e) then remove s' c (fst e) r else s') L s in
  wf s' /\ outer s' = outer s /\
  (forall k, fst k <> c -> view k s' = view k s) /\
  (forall q, view (c, q) s' = cancel_view r (view (c, q) s) \/
             (view (c, q) s' = view (c, q) s /\ forall cl, In (q, cl) L -> memn c cl = false)).
Proof.
  intros c r L. induction L as [|[q0 cl0] L IH]; intros s W; cbn [fold_left].
  - split; [assumption|]. split; [reflexivity|]. split; [reflexivity|].
    intro q. right. split; [reflexivity|]. intros cl [].
  - cbn [fst snd].
    set (s1 := if memn c cl0 then remove s c q0 r else s).
    assert (W1 : wf s1). { unfold s1. destruct (memn c cl0); [apply wf_remove|]; assumption. }
    assert (O1 : outer s1 = outer s). { unfold s1. destruct (memn c cl0); [apply outer_remove|reflexivity]. }
    assert (V1 : forall k, view k s1 = if memn c cl0 && key_eqb k (c, q0) then cancel_view r (view k s) else view k s).
    { intro k. unfold s1. destruct (memn c cl0); cbn [andb]; [apply view_remove|reflexivity]. }
    destruct (IH s1 W1) as [W' [O' [Vn Vc]]]. cbv zeta in *.
    split; [assumption|]. split; [congruence|]. split.
    + intros k Hk. rewrite Vn by assumption. rewrite V1.
      destruct (key_eqb k (c, q0)) eqn:E; [|rewrite andb_false_r; reflexivity].
      apply key_eqb_spec in E. subst k. exfalso. apply Hk. reflexivity.
    + intro q. specialize (Vc q). rewrite V1 in Vc.
      destruct (memn c cl0 && key_eqb (c, q) (c, q0)) eqn:E.
      * left. destruct Vc as [Vc|[Vc _]]; rewrite Vc; [apply cancel_view_idem|reflexivity].
      * destruct Vc as [Vc|[Vc Hall]]; [left; assumption|]. right. split; [assumption|].
        intros cl [Hin|Hin]; [|apply Hall; assumption].
        inversion Hin; subst. rewrite key_eqb_refl, andb_true_r in E. assumption.
Qed.

Section WithOrd.
  Variable Q : nat -> query.
  Variable ord : forall A : Type, nat -> list A -> list A.
  Hypothesis ord_perm : forall A n (l : list A), Permutation (ord A n l) l.

  Lemma remove_client_spec : forall seed s c r, wf s ->
    let s' := remove_client ord seed s c r in
    wf s' /\ outer s' = outer s /\
    forall k, view k s' = if Nat.eqb (fst k) c then cancel_view r (view k s) else view k s.
  Proof.
    intros seed s c r W. unfold remove_client.
    destruct (remove_client_fold c r (ord _ seed (subs s)) s W) as [W' [O' [Vn Vc]]].
    cbv zeta in *. split; [assumption|]. split; [assumption|].
    intros [c' q]. cbn [fst]. destruct (Nat.eqb c' c) eqn:E.
    - apply Nat.eqb_eq in E. subst c'. destruct (Vc q) as [H|[H Hall]]; [assumption|].
      rewrite H. unfold view, cancel_view. cbn [fst snd].
      assert (Ht : in_table (c, q) s = false).
      { unfold in_table. cbn [fst snd].
        destruct (alookup Nat.eqb q (subs s)) as [cl|] eqn:El; [|reflexivity].
        apply Hall. eapply Permutation_in; [apply Permutation_sym; apply ord_perm|].
        apply (alookup_in Nat.eqb nat_eqb_spec). assumption. }
      rewrite Ht. reflexivity.
    - apply Vn. cbn [fst]. apply Nat.eqb_neq. assumption.
  Qed.

  (* -- send *)

  Lemma deliver_spec : forall m q s c, wf s -> in_table (c, q) s = true ->
    let s' := deliver m q s c in
    wf s' /\ outer s' = outer s /\
    forall k, view k s' = if key_eqb k (c, q) then push_view m (view k s) else view k s.
  Proof.
    intros m q s c W Ht. unfold deliver.
    destruct (alookup key_eqb (c, q) (heap s)) as [ch|] eqn:Eh.
    - assert (Hpush : let s' := set_heap s (aset key_eqb (c, q) (chan_push m ch) (heap s)) in
                      wf s' /\ outer s' = outer s /\
                      forall k, view k s' = if key_eqb k (c, q)
                                            then (in_table k s, Some (chan_push m ch)) else view k s).
      { cbv zeta. split; [apply wf_set_heap; assumption|]. split; [reflexivity|].
        intro k. apply view_set_heap. }
      destruct (Nat.eqb (ch_cap ch) 0) eqn:Ec.
      + cbv zeta in *. destruct Hpush as [A [B C]]. split; [assumption|]. split; [assumption|].
        intro k. rewrite C. destruct (key_eqb k (c, q)) eqn:E; [|reflexivity].
        apply key_eqb_spec in E. subst k. unfold push_view, view. cbn [fst snd]. rewrite Eh, Ec.
        reflexivity.
      + destruct (chan_full ch) eqn:Ef.
        * cbv zeta. split; [apply wf_remove; assumption|]. split; [apply outer_remove|].
          intro k. rewrite view_remove. destruct (key_eqb k (c, q)) eqn:E; [|reflexivity].
          apply key_eqb_spec in E. subst k. unfold push_view, cancel_view, view. cbn [fst snd].
          rewrite Eh, Ec, Ef, Ht. reflexivity.
        * cbv zeta in *. destruct Hpush as [A [B C]]. split; [assumption|]. split; [assumption|].
          intro k. rewrite C. destruct (key_eqb k (c, q)) eqn:E; [|reflexivity].
          apply key_eqb_spec in E. subst k. unfold push_view, view. cbn [fst snd].
          rewrite Eh, Ec, Ef. reflexivity.
    - cbv zeta. split; [assumption|]. split; [reflexivity|].
      intro k. destruct (key_eqb k (c, q)) eqn:E; [|reflexivity].
      apply key_eqb_spec in E. subst k. unfold push_view, view. cbn [fst snd]. rewrite Eh. reflexivity.
  Qed.

  Lemma deliver_fold : forall m q (C : list nat) s, wf s -> NoDup C ->
    (forall c, In c C -> in_table (c, q) s = true) ->
    let s' := fold_left (deliver m q) C s in
    wf s' /\ outer s' = outer s /\
    forall k, view k s' = if Nat.eqb (snd k) q && memn (fst k) C
                          then push_view m (view k s) else view k s.
  Proof.
    intros m q C. induction C as [|c C IH]; intros s W Hd Hl; cbn [fold_left].
    - split; [assumption|]. split; [reflexivity|]. intro k. cbn. rewrite andb_false_r. reflexivity.
    - inversion Hd as [|? ? Hn Hd']; subst.
      destruct (deliver_spec m q s c W (Hl c (or_introl eq_refl))) as [W1 [O1 V1]]. cbv zeta in *.
      destruct (IH (deliver m q s c) W1 Hd') as [W' [O' V']].
      { intros c' Hc'. pose proof (V1 (c', q)) as H.
        destruct (key_eqb (c', q) (c, q)) eqn:E.
        - apply key_eqb_spec in E. inversion E; subst. contradiction.
        - apply (f_equal fst) in H. cbn [fst view] in H. rewrite H. apply Hl. right. assumption. }
      split; [assumption|]. split; [congruence|].
      intros [c' q']. rewrite V', V1. cbn [fst snd]. unfold key_eqb. cbn [fst snd].
      unfold memn at 2. cbn [existsb]. fold (memn c' C).
      destruct (Nat.eqb q' q) eqn:Eq; cbn [andb]; [|rewrite andb_false_r; reflexivity].
      rewrite andb_true_r. destruct (Nat.eqb c' c) eqn:Ec; cbn [orb].
      + apply Nat.eqb_eq in Ec. subst c'.
        assert (Hm : memn c C = false).
        { destruct (memn c C) eqn:Em; [|reflexivity]. apply memn_in in Em. contradiction. }
        rewrite Hm. reflexivity.
      + reflexivity.
  Qed.

  Definition covered (L : list (nat * list nat)) (ev : events) (k : key) : bool :=
    match alookup Nat.eqb (snd k) L with
    | Some cl => memn (fst k) cl && mres_eqb (matches (Q (snd k)) ev) MTrue
    | None => false
    end.

  Lemma send_fold : forall seed m ev (L : list (nat * list nat)) s, wf s ->
    NoDup (map fst L) ->
    (forall q cl, In (q, cl) L -> cl <> [] /\ NoDup cl /\
                                  forall c, In c cl -> in_table (c, q) s = true) ->
    let s' := fold_left (send_query Q ord seed m ev) L s in
    wf s' /\ outer s' = outer s /\
    forall k, view k s' = if covered L ev k then push_view m (view k s) else view k s.
  Proof.
    intros seed m ev L. induction L as [|[q cl] L IH]; intros s W Hd Hl; cbn [fold_left].
    - split; [assumption|]. split; reflexivity.
    - inversion Hd as [|? ? Hn Hd']; subst.
      destruct (Hl q cl (or_introl eq_refl)) as [Hne [Hnd Hlive]].
      set (s1 := send_query Q ord seed m ev s (q, cl)).
      assert (H1 : wf s1 /\ outer s1 = outer s /\
                   forall k, view k s1 = if Nat.eqb (snd k) q && memn (fst k) cl
                                            && mres_eqb (matches (Q q) ev) MTrue
                                         then push_view m (view k s) else view k s).
      { unfold s1, send_query. cbn [fst snd]. rewrite (wf_nopanic _ W).
        assert (Eq : exists n, alookup Nat.eqb q (queries s) = Some n).
        { rewrite (wf_refcount _ W). destruct cl as [|c0 cl']; [contradiction|].
          specialize (Hlive c0 (or_introl eq_refl)). unfold in_table in Hlive. cbn [fst snd] in Hlive.
          destruct (alookup Nat.eqb q (subs s)); [eexists; reflexivity | discriminate]. }
        destruct Eq as [n ->].
        destruct (matches (Q q) ev) eqn:Em; cbn [mres_eqb].
        - destruct (deliver_fold m q (ord _ (S seed + q) cl) s W) as [A [B C]].
          + eapply Permutation_NoDup; [apply Permutation_sym; apply ord_perm | assumption].
          + intros c Hc. apply Hlive. apply (Permutation_in _ (ord_perm _ _ _) Hc).
          + cbv zeta in *. split; [assumption|]. split; [assumption|].
            intro k. rewrite C. rewrite andb_true_r.
            assert (Hmem : memn (fst k) (ord nat (S seed + q) cl) = memn (fst k) cl).
            { destruct (memn (fst k) cl) eqn:E.
              - apply memn_in. apply memn_in in E.
                eapply Permutation_in; [apply Permutation_sym; apply ord_perm | assumption].
              - destruct (memn (fst k) (ord nat (S seed + q) cl)) eqn:E'; [|reflexivity].
                apply memn_in in E'. apply (Permutation_in _ (ord_perm _ _ _)) in E'.
                apply memn_in in E'. congruence. }
            rewrite Hmem. reflexivity.
        - split; [assumption|]. split; [reflexivity|]. intro k. rewrite andb_false_r. reflexivity.
        - split; [assumption|]. split; [reflexivity|]. intro k. rewrite andb_false_r. reflexivity. }
      destruct H1 as [W1 [O1 V1]].
      destruct (IH s1 W1 Hd') as [W' [O' V']].
      { intros q' cl' Hin. destruct (Hl q' cl' (or_intror Hin)) as [A [B C]].
        split; [assumption|]. split; [assumption|].
        intros c Hc. pose proof (V1 (c, q')) as H. cbn [fst snd] in H.
        assert (Eqq : Nat.eqb q' q = false).
        { apply Nat.eqb_neq. intros ->. apply Hn. change q with (fst (q, cl')). apply in_map. assumption. }
        rewrite Eqq in H. cbn [andb] in H. apply (f_equal fst) in H. cbn [fst view] in H.
        rewrite H. apply C. assumption. }
      cbv zeta in *. split; [assumption|]. split; [congruence|].
      intro k. rewrite V', V1. unfold covered. cbn [alookup].
      destruct (Nat.eqb (snd k) q) eqn:Eq.
      + apply Nat.eqb_eq in Eq. rewrite Eq.
        assert (Hnone : alookup Nat.eqb q L = None).
        { destruct (alookup Nat.eqb q L) eqn:E; [|reflexivity].
          apply (alookup_in Nat.eqb nat_eqb_spec) in E. exfalso. apply Hn.
          change q with (fst (q, l)). apply in_map. assumption. }
        rewrite Hnone. cbn [andb]. reflexivity.
      + cbn [andb]. reflexivity.
  Qed.

  Lemma send_spec : forall seed m ev s, wf s ->
    let s' := send Q ord seed m ev s in
    wf s' /\ outer s' = outer s /\
    forall k, view k s' = if in_table k s && mres_eqb (matches (Q (snd k)) ev) MTrue
                          then push_view m (view k s) else view k s.
  Proof.
    intros seed m ev s W. unfold send.
    assert (Hp : Permutation (ord _ seed (subs s)) (subs s)) by apply ord_perm.
    destruct (send_fold seed m ev (ord _ seed (subs s)) s W) as [A [B C]].
    - eapply Permutation_NoDup; [apply Permutation_sym; apply Permutation_map; eassumption|].
      apply (wf_keys _ W).
    - intros q cl Hin. apply (Permutation_in _ Hp) in Hin.
      apply (in_alookup Nat.eqb nat_eqb_spec _ _ _ (wf_keys _ W)) in Hin.
      destruct (wf_clients _ W _ _ Hin) as [H1 H2]. split; [assumption|]. split; [assumption|].
      intros c Hc. unfold in_table. cbn [fst snd]. rewrite Hin. apply memn_in. assumption.
    - cbv zeta in *. split; [assumption|]. split; [assumption|].
      intro k. rewrite C. unfold covered.
      rewrite (alookup_perm Nat.eqb nat_eqb_spec _ _ (snd k) Hp).
      2:{ eapply Permutation_NoDup; [apply Permutation_sym; apply Permutation_map; eassumption|].
          apply (wf_keys _ W). }
      unfold in_table. destruct (alookup Nat.eqb (snd k) (subs s)); reflexivity.
  Qed.
End WithOrd.

(* ------------------------------------------------------------------ the projection theorem *)

Lemma solo_eq : forall a b,
  so_outer a = so_outer b -> so_live a = so_live b -> so_chan a = so_chan b -> a = b.
Proof. intros [a1 a2 a3] [b1 b2 b3]; cbn; intros; subst; reflexivity. Qed.

Lemma has_key_app : forall k o o', has_key k (o ++ o') = has_key k o || has_key k o'.
Proof. intros. unfold has_key. apply existsb_app. Qed.

Lemma has_key_filter : forall (p : key -> bool) k o,
  has_key k (filter p o) = has_key k o && p k.
Proof.
  intros p k o. unfold has_key. induction o as [|y o IH]; cbn [filter existsb].
  - reflexivity.
  - destruct (p y) eqn:Ep; cbn [existsb]; rewrite IH.
    + destruct (key_eqb k y) eqn:E; cbn [orb]; [|reflexivity].
      apply key_eqb_spec in E. subst y. rewrite Ep. rewrite andb_true_r.
      destruct (existsb (key_eqb k) o); reflexivity.
    + destruct (key_eqb k y) eqn:E; cbn [orb]; [|reflexivity].
      apply key_eqb_spec in E. subst y. rewrite Ep, !andb_false_r. reflexivity.
Qed.

Lemma has_key_client : forall k o, has_key k o = true -> has_client (fst k) o = true.
Proof.
  intros k o H. apply has_key_in in H. unfold has_client. apply existsb_exists.
  exists k. split; [assumption | apply Nat.eqb_refl].
Qed.

Lemma wf_set_outer : forall s o, wf s ->
  (forall k, in_table k s = true -> has_key k o = true) -> wf (set_outer s o).
Proof. intros s o [A B C D E] H. constructor; assumption. Qed.

Lemma wf_not_outer : forall s k, wf s -> has_key k (outer s) = false -> in_table k s = false.
Proof.
  intros s k W H. destruct (in_table k s) eqn:E; [|reflexivity].
  apply (wf_outer _ W) in E. congruence.
Qed.

Lemma solo_publish_view : forall Q k so m ev seed,
  solo_step Q k so (Publish m ev seed) =
  let v := (so_live so, so_chan so) in
  let v' := if so_live so && mres_eqb (matches (Q (snd k)) ev) MTrue then push_view m v else v in
  {| so_outer := so_outer so; so_live := fst v'; so_chan := snd v' |}.
Proof.
  intros Q k [o l ch] m ev seed. cbn [solo_step so_live so_chan so_outer]. cbv zeta.
  destruct l; cbn [andb]; [|reflexivity].
  destruct (matches (Q (snd k)) ev); cbn [mres_eqb]; try reflexivity.
  unfold push_view. cbn [fst snd]. destruct ch as [c|]; [|reflexivity].
  destruct (negb (Nat.eqb (ch_cap c) 0) && chan_full c); reflexivity.
Qed.

Section Main.
  Variable Q : nat -> query.
  Variable ord : forall A : Type, nat -> list A -> list A.
  Hypothesis ord_perm : forall A n (l : list A), Permutation (ord A n l) l.

  Lemma proj_step : forall k s o, wf s ->
    wf (fst (step Q ord s o)) /\
    proj k (fst (step Q ord s o)) = solo_step Q k (proj k s) o.
  Proof.
    intros k s o W. destruct o as [c q cap|c q|c seed|m ev seed|c q n]; cbn [step solo_step].
    - (* Subscribe *)
      destruct (has_key (c, q) (outer s)) eqn:Ho; cbn [fst].
      + split; [assumption|]. destruct (key_eqb (c, q) k) eqn:E; [|reflexivity].
        apply key_eqb_spec in E. subst k. cbn [proj so_outer]. rewrite Ho. reflexivity.
      + pose proof (wf_not_outer _ _ W Ho) as Hn.
        split; [exact (wf_add s c q cap W Hn)|].
        apply solo_eq.
        * cbn [proj so_outer set_outer outer]. rewrite has_key_app. cbn [has_key existsb].
          rewrite orb_false_r. rewrite (key_eqb_sym (c, q) k).
          destruct (key_eqb k (c, q)) eqn:E.
          { apply key_eqb_spec in E. subst k. cbn [proj so_outer]. rewrite Ho. cbn. apply orb_true_r. }
          { cbn [proj so_outer]. apply orb_false_r. }
        * cbn [proj so_live]. change (in_table k (set_outer (add s c q cap) (outer (add s c q cap) ++ [(c, q)])))
            with (in_table k (add s c q cap)). rewrite in_table_add. rewrite (key_eqb_sym (c, q) k).
          destruct (key_eqb k (c, q)) eqn:E; cbn [orb].
          { apply key_eqb_spec in E. subst k. cbn [proj so_outer]. rewrite Ho. reflexivity. }
          { reflexivity. }
        * cbn [proj so_chan set_outer heap]. rewrite heap_add. rewrite (key_eqb_sym (c, q) k).
          destruct (key_eqb k (c, q)) eqn:E.
          { apply key_eqb_spec in E. subst k. cbn [proj so_outer]. rewrite Ho. reflexivity. }
          { reflexivity. }
    - (* Unsubscribe *)
      destruct (has_key (c, q) (outer s)) eqn:Ho; cbn [fst].
      + split.
        * apply wf_set_outer; [apply wf_remove; assumption|].
          intros k' Hk'. rewrite in_table_remove in Hk'. rewrite outer_remove, has_key_filter.
          rewrite (key_eqb_sym (c, q) k'). destruct (key_eqb k' (c, q)); [discriminate|].
          rewrite (wf_outer _ W _ Hk'). reflexivity.
        * apply solo_eq.
          { cbn [proj so_outer set_outer outer]. rewrite outer_remove, has_key_filter.
            destruct (key_eqb (c, q) k) eqn:E.
            - apply key_eqb_spec in E. subst k. cbn [proj so_outer]. rewrite Ho. reflexivity.
            - cbn [proj so_outer negb]. apply andb_true_r. }
          { cbn [proj so_live].
            change (in_table k (set_outer (remove s c q Unsubscribed)
                     (filter (fun k0 => negb (key_eqb (c, q) k0)) (outer (remove s c q Unsubscribed)))))
              with (in_table k (remove s c q Unsubscribed)).
            rewrite in_table_remove, (key_eqb_sym (c, q) k).
            destruct (key_eqb k (c, q)) eqn:E; [|reflexivity].
            apply key_eqb_spec in E. subst k. cbn [proj so_outer]. rewrite Ho. reflexivity. }
          { cbn [proj so_chan set_outer heap]. rewrite heap_remove, (key_eqb_sym (c, q) k).
            destruct (key_eqb k (c, q)) eqn:E; cbn [andb]; [|reflexivity].
            apply key_eqb_spec in E. subst k. cbn [proj so_outer so_live so_chan]. rewrite Ho. reflexivity. }
      + split; [assumption|]. destruct (key_eqb (c, q) k) eqn:E; [|reflexivity].
        apply key_eqb_spec in E. subst k. cbn [proj so_outer]. rewrite Ho. reflexivity.
    - (* UnsubscribeAll *)
      destruct (has_client c (outer s)) eqn:Ho; cbn [fst].
      + destruct (remove_client_spec ord ord_perm seed s c Unsubscribed W) as [W1 [O1 V1]].
        cbv zeta in *. split.
        * apply wf_set_outer; [assumption|].
          intros k' Hk'. rewrite O1, has_key_filter.
          pose proof (V1 k') as H. apply (f_equal fst) in H. cbn [fst view] in H. rewrite Hk' in H.
          destruct (Nat.eqb (fst k') c); [cbn in H; discriminate|].
          symmetry in H. rewrite (wf_outer _ W _ H). reflexivity.
        * pose proof (V1 k) as H.
          assert (H1 := f_equal fst H). assert (H2 := f_equal snd H). cbn [fst snd view] in H1, H2.
          rewrite (Nat.eqb_sym c (fst k)).
          change (so_outer (proj k s)) with (has_key k (outer s)).
          change (so_live (proj k s)) with (in_table k s).
          change (so_chan (proj k s)) with (alookup key_eqb k (heap s)).
          apply solo_eq.
          { cbn [proj so_outer set_outer outer]. rewrite O1, has_key_filter.
            destruct (Nat.eqb (fst k) c) eqn:E; cbn [negb].
            - rewrite andb_false_r. destruct (has_key k (outer s)) eqn:Hk;
                [reflexivity | cbn [proj so_outer]; symmetry; exact Hk].
            - apply andb_true_r. }
          { cbn [proj so_live].
            change (in_table k (set_outer (remove_client ord seed s c Unsubscribed)
                     (filter (fun k0 => negb (Nat.eqb (fst k0) c)) (outer (remove_client ord seed s c Unsubscribed)))))
              with (in_table k (remove_client ord seed s c Unsubscribed)).
            rewrite H1. destruct (Nat.eqb (fst k) c) eqn:E; [|reflexivity].
            cbn [cancel_view fst]. cbn [proj so_outer so_live].
            destruct (has_key k (outer s)) eqn:Hk; [reflexivity|].
            symmetry. apply wf_not_outer; assumption. }
          { cbn [proj so_chan set_outer heap]. rewrite H2.
            destruct (Nat.eqb (fst k) c) eqn:E; [|reflexivity].
            unfold cancel_view, view. cbn [snd fst].
            destruct (has_key k (outer s)) eqn:Hk; [reflexivity|].
            rewrite (wf_not_outer _ _ W Hk). reflexivity. }
      + split; [assumption|]. destruct (Nat.eqb c (fst k)) eqn:E; [|reflexivity].
        apply Nat.eqb_eq in E. subst c. cbn [proj so_outer].
        destruct (has_key k (outer s)) eqn:Hk; [|reflexivity].
        apply has_key_client in Hk. congruence.
    - (* Publish *)
      cbn [fst]. destruct (send_spec Q ord ord_perm seed m ev s W) as [W1 [O1 V1]]. cbv zeta in *.
      split; [assumption|].
      pose proof (V1 k) as H.
      assert (H1 := f_equal fst H). assert (H2 := f_equal snd H). cbn [fst snd view] in H1, H2.
      change (proj k (send Q ord seed m ev s) = solo_step Q k (proj k s) (Publish m ev seed)).
      rewrite solo_publish_view. apply solo_eq; cbn [so_outer so_live so_chan proj].
      + rewrite O1. reflexivity.
      + exact H1.
      + exact H2.
    - (* Read *)
      cbn [fst]. split; [apply wf_set_heap; assumption|].
      apply solo_eq.
      + cbn [proj so_outer set_heap outer]. destruct (key_eqb (c, q) k); reflexivity.
      + cbn [proj so_live].
        change (in_table k (set_heap s (heap_upd (chan_read n) (c, q) (heap s)))) with (in_table k s).
        destruct (key_eqb (c, q) k); reflexivity.
      + cbn [proj so_chan set_heap heap]. rewrite heap_upd_lookup, (key_eqb_sym (c, q) k).
        destruct (key_eqb k (c, q)); reflexivity.
  Qed.

  Lemma proj_fold : forall k ops s, wf s ->
    wf (fold_left (fun s o => fst (step Q ord s o)) ops s) /\
    proj k (fold_left (fun s o => fst (step Q ord s o)) ops s) =
    fold_left (solo_step Q k) ops (proj k s).
  Proof.
    intros k ops. induction ops as [|o ops IH]; intros s W; cbn [fold_left].
    - split; [assumption | reflexivity].
    - destruct (proj_step k s o W) as [W1 P1]. destruct (IH _ W1) as [W2 P2].
      split; [assumption|]. rewrite P2, P1. reflexivity.
  Qed.

  Theorem proj_run : forall k ops, proj k (run Q ord ops) = solo_run Q k ops.
  Proof.
    intros k ops. unfold run, solo_run. destruct (proj_fold k ops init wf_init) as [_ H].
    rewrite H. reflexivity.
  Qed.

  Theorem wf_run : forall ops, wf (run Q ord ops).
  Proof. intro ops. unfold run. destruct (proj_fold (0%nat, 0%nat) ops init wf_init) as [H _]. exact H. Qed.
End Main.

(* ------------------------------------------------------------------ isolation *)

(* the operations of a history that name the pair k, and the publications *)
Definition relevant (k : key) (o : op) : bool :=
  match o with
  | Subscribe c q _ => key_eqb (c, q) k
  | Unsubscribe c q => key_eqb (c, q) k
  | Read c q _ => key_eqb (c, q) k
  | UnsubscribeAll c _ => Nat.eqb c (fst k)
  | Publish _ _ _ => true
  end.

(* forget the map-order seeds *)
Definition strip (o : op) : op :=
  match o with
  | UnsubscribeAll c _ => UnsubscribeAll c 0
  | Publish m ev _ => Publish m ev 0
  | _ => o
  end.

Lemma solo_irrelevant : forall Q k s o, relevant k o = false -> solo_step Q k s o = s.
Proof.
  intros Q k s o H. destruct o; cbn [relevant solo_step] in *; try rewrite H; try reflexivity.
  discriminate.
Qed.

Lemma solo_strip : forall Q k s o, solo_step Q k s (strip o) = solo_step Q k s o.
Proof. intros Q k s o. destruct o; reflexivity. Qed.

Lemma solo_step_Q : forall Q Q' k s o, Q (snd k) = Q' (snd k) ->
  solo_step Q k s o = solo_step Q' k s o.
Proof. intros Q Q' k s o H. destruct o; cbn [solo_step]; try rewrite H; reflexivity. Qed.

Lemma solo_fold_filter : forall Q k ops s,
  fold_left (solo_step Q k) ops s =
  fold_left (solo_step Q k) (map strip (filter (relevant k) ops)) s.
Proof.
  intros Q k ops. induction ops as [|o ops IH]; intro s; cbn [filter fold_left map].
  - reflexivity.
  - destruct (relevant k o) eqn:E; cbn [map fold_left].
    + rewrite solo_strip. apply IH.
    + rewrite solo_irrelevant by assumption. apply IH.
Qed.

Lemma solo_fold_Q : forall Q Q' k ops s, Q (snd k) = Q' (snd k) ->
  fold_left (solo_step Q k) ops s = fold_left (solo_step Q' k) ops s.
Proof.
  intros Q Q' k ops. induction ops as [|o ops IH]; intros s H; cbn [fold_left].
  - reflexivity.
  - rewrite (solo_step_Q Q Q' k s o H). apply IH. assumption.
Qed.

Theorem isolation : forall Q Q' ord ord'
  (P : forall A n (l : list A), Permutation (ord A n l) l)
  (P' : forall A n (l : list A), Permutation (ord' A n l) l) k ops ops',
  Q (snd k) = Q' (snd k) ->
  map strip (filter (relevant k) ops) = map strip (filter (relevant k) ops') ->
  proj k (run Q ord ops) = proj k (run Q' ord' ops').
Proof.
  intros Q Q' ord ord' P P' k ops ops' HQ H.
  rewrite (proj_run Q ord P), (proj_run Q' ord' P'). unfold solo_run.
  rewrite (solo_fold_filter Q k ops), (solo_fold_filter Q' k ops'), H.
  apply solo_fold_Q. assumption.
Qed.

(* ------------------------------------------------------------------ delivery exactness *)

(* no operation of the list (un)subscribes the pair k *)
Definition quiet (k : key) (o : op) : bool :=
  match o with
  | Subscribe c q _ => negb (key_eqb (c, q) k)
  | Unsubscribe c q => negb (key_eqb (c, q) k)
  | UnsubscribeAll c _ => negb (Nat.eqb c (fst k))
  | _ => true
  end.

(* the messages of the publications of a history that match k's query, in order *)
Fixpoint matching (Q : nat -> query) (k : key) (ops : list op) : list nat :=
  match ops with
  | [] => []
  | Publish m ev _ :: r =>
    if mres_eqb (matches (Q (snd k)) ev) MTrue then m :: matching Q k r else matching Q k r
  | _ :: r => matching Q k r
  end.

Lemma pushed_read : forall n ch, pushed (chan_read n ch) = pushed ch.
Proof.
  intros n ch. unfold pushed, chan_read. cbn [ch_got ch_buf].
  rewrite <- app_assoc, firstn_skipn. reflexivity.
Qed.

Definition unbuf_ok (ch : chan) : Prop := ch_cap ch = 0 -> ch_buf ch = [].

Lemma pushed_push : forall m ch, unbuf_ok ch -> pushed (chan_push m ch) = pushed ch ++ [m].
Proof.
  intros m ch H. unfold pushed, chan_push. destruct (Nat.eqb (ch_cap ch) 0) eqn:E; cbn [ch_got ch_buf].
  - apply Nat.eqb_eq in E. rewrite (H E), !app_nil_r. reflexivity.
  - rewrite app_assoc. reflexivity.
Qed.

Lemma unbuf_ok_push : forall m ch, unbuf_ok ch -> unbuf_ok (chan_push m ch).
Proof.
  intros m ch H. unfold unbuf_ok, chan_push. destruct (Nat.eqb (ch_cap ch) 0) eqn:E; cbn [ch_cap ch_buf].
  - intros _. apply H. apply Nat.eqb_eq. assumption.
  - intro H0. rewrite H0 in E. discriminate.
Qed.

Lemma unbuf_ok_read : forall n ch, unbuf_ok ch -> unbuf_ok (chan_read n ch).
Proof.
  intros n ch H. unfold unbuf_ok, chan_read. cbn [ch_cap ch_buf]. intro H0. rewrite (H H0).
  destruct n; reflexivity.
Qed.

(* a subscription that is no longer in the table: nothing is pushed any more *)
Lemma solo_dead : forall Q k ops so, so_live so = false -> forallb (quiet k) ops = true ->
  let so' := fold_left (solo_step Q k) ops so in
  so_live so' = false /\ so_outer so' = so_outer so /\
  option_map pushed (so_chan so') = option_map pushed (so_chan so) /\
  option_map ch_err (so_chan so') = option_map ch_err (so_chan so) /\
  option_map ch_cap (so_chan so') = option_map ch_cap (so_chan so).
Proof.
  intros Q k ops. induction ops as [|o ops IH]; intros so Hl Hq; cbn [fold_left].
  - cbv zeta. repeat split; reflexivity || assumption.
  - cbn [forallb] in Hq. apply andb_true_iff in Hq as [Hq1 Hq2].
    assert (H1 : so_live (solo_step Q k so o) = false /\
                 so_outer (solo_step Q k so o) = so_outer so /\
                 option_map pushed (so_chan (solo_step Q k so o)) = option_map pushed (so_chan so) /\
                 option_map ch_err (so_chan (solo_step Q k so o)) = option_map ch_err (so_chan so) /\
                 option_map ch_cap (so_chan (solo_step Q k so o)) = option_map ch_cap (so_chan so)).
    { destruct o as [c q cap|c q|c seed|m ev seed|c q n]; cbn [solo_step quiet] in *.
      - apply negb_true_iff in Hq1. rewrite Hq1. repeat split; reflexivity || assumption.
      - apply negb_true_iff in Hq1. rewrite Hq1. repeat split; reflexivity || assumption.
      - apply negb_true_iff in Hq1. rewrite Hq1. repeat split; reflexivity || assumption.
      - rewrite Hl. repeat split; reflexivity || assumption.
      - destruct (key_eqb (c, q) k); [|repeat split; reflexivity || assumption].
        cbn [so_live so_outer so_chan]. split; [assumption|]. split; [reflexivity|].
        destruct (so_chan so) as [ch|]; cbn [option_map]; [|repeat split; reflexivity].
        rewrite pushed_read. repeat split; reflexivity. }
    destruct H1 as [A [B [C [D E]]]].
    destruct (IH _ A Hq2) as [A' [B' [C' [D' E']]]]. cbv zeta in *.
    repeat split; congruence.
Qed.

Lemma solo_live : forall Q k ops so ch,
  so_live so = true -> so_chan so = Some ch -> unbuf_ok ch -> forallb (quiet k) ops = true ->
  let so' := fold_left (solo_step Q k) ops so in
  so_outer so' = so_outer so /\
  exists ch', so_chan so' = Some ch' /\ ch_cap ch' = ch_cap ch /\
    ((so_live so' = true /\ ch_err ch' = ch_err ch /\ pushed ch' = pushed ch ++ matching Q k ops) \/
     (so_live so' = false /\ ch_cap ch <> 0 /\ ch_err ch' = Some OutOfCapacity /\
      exists m rest, pushed ch ++ matching Q k ops = pushed ch' ++ m :: rest)).
Proof.
  intros Q k ops. induction ops as [|o ops IH]; intros so ch Hl Hc Hu Hq; cbn [fold_left].
  - cbv zeta. split; [reflexivity|]. exists ch. split; [assumption|]. split; [reflexivity|].
    left. cbn [matching]. rewrite app_nil_r. repeat split; assumption || reflexivity.
  - cbn [forallb] in Hq. apply andb_true_iff in Hq as [Hq1 Hq2].
    destruct o as [c q cap|c q|c seed|m ev seed|c q n]; cbn [quiet] in Hq1.
    + apply negb_true_iff in Hq1. cbn [solo_step matching]. rewrite Hq1. apply IH; assumption.
    + apply negb_true_iff in Hq1. cbn [solo_step matching]. rewrite Hq1. apply IH; assumption.
    + apply negb_true_iff in Hq1. cbn [solo_step matching]. rewrite Hq1. apply IH; assumption.
    + cbn [solo_step matching]. rewrite Hl, Hc.
      destruct (matches (Q (snd k)) ev) eqn:Em; cbn [mres_eqb]; try (apply IH; assumption).
      destruct (negb (Nat.eqb (ch_cap ch) 0) && chan_full ch) eqn:Ef.
      * (* cancelled for capacity: nothing more is pushed *)
        apply andb_true_iff in Ef as [Ef1 Ef2]. apply negb_true_iff, Nat.eqb_neq in Ef1.
        match goal with |- context [fold_left _ ops ?s1] => set (so1 := s1) end.
        destruct (solo_dead Q k ops so1 eq_refl Hq2) as [A [B [C [D E]]]]. cbv zeta in *.
        split; [exact B|].
        cbn [so1 so_chan option_map] in C, D, E.
        destruct (so_chan (fold_left (solo_step Q k) ops so1)) as [ch'|]; [|discriminate].
        cbn [option_map] in C, D, E. injection C as C. injection D as D. injection E as E.
        exists ch'. split; [reflexivity|]. split; [exact E|]. right.
        split; [exact A|]. split; [exact Ef1|]. split; [exact D|].
        exists m, (matching Q k ops). rewrite C. reflexivity.
      * match goal with |- context [fold_left _ ops ?s1] => set (so1 := s1) end.
        destruct (IH so1 (chan_push m ch) eq_refl eq_refl (unbuf_ok_push m ch Hu) Hq2) as [B [ch' [A1 [A2 A3]]]].
        cbv zeta in *. split; [exact B|]. exists ch'. split; [exact A1|].
        assert (Hcap : ch_cap (chan_push m ch) = ch_cap ch).
        { unfold chan_push. destruct (Nat.eqb (ch_cap ch) 0) eqn:E0; cbn [ch_cap]; [|reflexivity].
          symmetry. apply Nat.eqb_eq. assumption. }
        assert (Herr : ch_err (chan_push m ch) = ch_err ch).
        { unfold chan_push. destruct (Nat.eqb (ch_cap ch) 0); reflexivity. }
        rewrite Hcap, Herr, (pushed_push m ch Hu), <- app_assoc in A3. cbn [app] in A3.
        split; [congruence|]. exact A3.
    + cbn [solo_step matching]. destruct (key_eqb (c, q) k); [|apply IH; assumption].
      match goal with |- context [fold_left _ ops ?s1] => set (so1 := s1) end.
      assert (Hc1 : so_chan so1 = Some (chan_read n ch)).
      { unfold so1. cbn [so_chan]. rewrite Hc. reflexivity. }
      destruct (IH so1 (chan_read n ch) Hl Hc1 (unbuf_ok_read n ch Hu) Hq2) as [B [ch' [A1 [A2 A3]]]].
      cbv zeta in *. split; [exact B|]. exists ch'. split; [exact A1|].
      rewrite pushed_read in A3. cbn [chan_read ch_cap ch_err] in A2, A3. split; assumption.
Qed.

Section Exact.
  Variable Q : nat -> query.
  Variable ord : forall A : Type, nat -> list A -> list A.
  Hypothesis ord_perm : forall A n (l : list A), Permutation (ord A n l) l.

  Lemma run_app : forall a b,
    run Q ord (a ++ b) = fold_left (fun s o => fst (step Q ord s o)) b (run Q ord a).
  Proof. intros. unfold run. apply fold_left_app. Qed.

  Theorem delivery_exact : forall pre c q cap post,
    has_key (c, q) (outer (run Q ord pre)) = false ->
    forallb (quiet (c, q)) post = true ->
    let s := run Q ord (pre ++ Subscribe c q cap :: post) in
    exists ch, alookup key_eqb (c, q) (heap s) = Some ch /\ ch_cap ch = cap /\
      ((in_table (c, q) s = true /\ ch_err ch = None /\ pushed ch = matching Q (c, q) post) \/
       (in_table (c, q) s = false /\ cap <> 0 /\ ch_err ch = Some OutOfCapacity /\
        exists m rest, matching Q (c, q) post = pushed ch ++ m :: rest)).
  Proof.
    intros pre c q cap post Ho Hq s.
    pose proof (proj_run Q ord ord_perm (c, q) (pre ++ Subscribe c q cap :: post)) as H.
    fold s in H. unfold solo_run in H. rewrite fold_left_app in H. cbn [fold_left] in H.
    change (fold_left (solo_step Q (c, q)) pre solo_init) with (solo_run Q (c, q) pre) in H.
    rewrite <- (proj_run Q ord ord_perm) in H.
    cbn [solo_step] in H. rewrite key_eqb_refl in H. cbn [proj so_outer] in H. rewrite Ho in H.
    match type of H with _ = fold_left _ _ ?s1 => set (so1 := s1) in H end.
    destruct (solo_live Q (c, q) post so1 (new_chan cap) eq_refl eq_refl (fun _ => eq_refl) Hq)
      as [_ [ch [A1 [A2 A3]]]].
    cbv zeta in *. rewrite <- H in A1, A3. cbn [proj so_chan so_live] in A1, A3.
    exists ch. split; [exact A1|]. split; [exact A2|].
    cbn [new_chan pushed ch_got ch_buf ch_err ch_cap app] in A3. exact A3.
  Qed.
End Exact.

(* ------------------------------------------------------------------ after Unsubscribe *)

Definition no_resub (k : key) (o : op) : bool :=
  match o with
  | Subscribe c q _ => negb (key_eqb (c, q) k)
  | _ => true
  end.

Lemma solo_unreg : forall Q k ops so,
  so_outer so = false -> so_live so = false -> forallb (no_resub k) ops = true ->
  let so' := fold_left (solo_step Q k) ops so in
  so_live so' = false /\ so_outer so' = false /\
  option_map pushed (so_chan so') = option_map pushed (so_chan so) /\
  option_map ch_err (so_chan so') = option_map ch_err (so_chan so) /\
  option_map ch_cap (so_chan so') = option_map ch_cap (so_chan so).
Proof.
  intros Q k ops. induction ops as [|o ops IH]; intros so Ho Hl Hq; cbn [fold_left].
  - cbv zeta. repeat split; reflexivity || assumption.
  - cbn [forallb] in Hq. apply andb_true_iff in Hq as [Hq1 Hq2].
    assert (H1 : so_live (solo_step Q k so o) = false /\
                 so_outer (solo_step Q k so o) = false /\
                 option_map pushed (so_chan (solo_step Q k so o)) = option_map pushed (so_chan so) /\
                 option_map ch_err (so_chan (solo_step Q k so o)) = option_map ch_err (so_chan so) /\
                 option_map ch_cap (so_chan (solo_step Q k so o)) = option_map ch_cap (so_chan so)).
    { destruct o as [c q cap|c q|c seed|m ev seed|c q n]; cbn [solo_step no_resub] in *.
      - apply negb_true_iff in Hq1. rewrite Hq1. repeat split; reflexivity || assumption.
      - rewrite Ho. destruct (key_eqb (c, q) k); repeat split; reflexivity || assumption.
      - rewrite Ho. destruct (Nat.eqb c (fst k)); repeat split; reflexivity || assumption.
      - rewrite Hl. repeat split; reflexivity || assumption.
      - destruct (key_eqb (c, q) k); [|repeat split; reflexivity || assumption].
        cbn [so_live so_outer so_chan]. split; [assumption|]. split; [assumption|].
        destruct (so_chan so) as [ch|]; cbn [option_map]; [|repeat split; reflexivity].
        rewrite pushed_read. repeat split; reflexivity. }
    destruct H1 as [A [B [C [D E]]]].
    destruct (IH _ B A Hq2) as [A' [B' [C' [D' E']]]]. cbv zeta in *.
    repeat split; congruence.
Qed.

Section Told.
  Variable Q : nat -> query.
  Variable ord : forall A : Type, nat -> list A -> list A.
  Hypothesis ord_perm : forall A n (l : list A), Permutation (ord A n l) l.

  Theorem unsubscribed_final : forall pre c q cap post rest,
    has_key (c, q) (outer (run Q ord pre)) = false ->
    forallb (quiet (c, q)) post = true ->
    forallb (no_resub (c, q)) rest = true ->
    let s := run Q ord (pre ++ Subscribe c q cap :: post ++ Unsubscribe c q :: rest) in
    in_table (c, q) s = false /\ has_key (c, q) (outer s) = false /\
    exists ch, alookup key_eqb (c, q) (heap s) = Some ch /\ ch_cap ch = cap /\
      ((ch_err ch = Some Unsubscribed /\ pushed ch = matching Q (c, q) post) \/
       (cap <> 0 /\ ch_err ch = Some OutOfCapacity /\
        exists m r, matching Q (c, q) post = pushed ch ++ m :: r)).
  Proof.
    intros pre c q cap post rest Ho Hq Hr s.
    pose proof (proj_run Q ord ord_perm (c, q)
                  (pre ++ Subscribe c q cap :: post ++ Unsubscribe c q :: rest)) as H.
    fold s in H. unfold solo_run in H. rewrite fold_left_app in H. cbn [fold_left] in H.
    rewrite fold_left_app in H. cbn [fold_left] in H.
    change (fold_left (solo_step Q (c, q)) pre solo_init) with (solo_run Q (c, q) pre) in H.
    rewrite <- (proj_run Q ord ord_perm) in H.
    cbn [solo_step] in H. rewrite !key_eqb_refl in H. cbn [proj so_outer] in H. rewrite Ho in H.
    match type of H with context [fold_left _ post ?s1] => set (so1 := s1) in H end.
    destruct (solo_live Q (c, q) post so1 (new_chan cap) eq_refl eq_refl (fun _ => eq_refl) Hq)
      as [B [ch [A1 [A2 A3]]]].
    cbv zeta in *. set (so2 := fold_left (solo_step Q (c, q)) post so1) in *.
    cbn [so1 so_outer] in B. rewrite B in H. rewrite A1 in H. cbn [option_map] in H.
    cbn [new_chan ch_cap ch_err] in A2, A3.
    destruct A3 as [[L2 [E2 P2]]|[L2 [N2 [E2 P2]]]]; rewrite L2 in H; cbn [option_map] in H.
    - match type of H with _ = fold_left _ rest ?s3 => set (so3 := s3) in H end.
      destruct (solo_unreg Q (c, q) rest so3 eq_refl eq_refl Hr) as [L [O [P [E C]]]].
      cbv zeta in *. rewrite <- H in L, O, P, E, C. cbn [proj so_live so_outer so_chan] in L, O, P, E, C.
      split; [exact L|]. split; [exact O|].
      cbn [so3 so_chan option_map] in P, E, C.
      destruct (alookup key_eqb (c, q) (heap s)) as [ch'|]; [|discriminate].
      cbn [option_map] in P, E, C. injection P as P. injection E as E. injection C as C.
      exists ch'. split; [reflexivity|].
      split; [cbn [chan_cancel ch_cap] in C; congruence|]. left.
      cbn [chan_cancel ch_err] in E. split; [exact E|].
      rewrite P. unfold pushed. cbn [chan_cancel ch_got ch_buf].
      cbn [new_chan pushed ch_got ch_buf app] in P2. exact P2.
    - match type of H with _ = fold_left _ rest ?s3 => set (so3 := s3) in H end.
      destruct (solo_unreg Q (c, q) rest so3 eq_refl eq_refl Hr) as [L [O [P [E C]]]].
      cbv zeta in *. rewrite <- H in L, O, P, E, C. cbn [proj so_live so_outer so_chan] in L, O, P, E, C.
      split; [exact L|]. split; [exact O|].
      cbn [so3 so_chan option_map] in P, E, C.
      destruct (alookup key_eqb (c, q) (heap s)) as [ch'|]; [|discriminate].
      cbn [option_map] in P, E, C. injection P as P. injection E as E. injection C as C.
      exists ch'. split; [reflexivity|].
      split; [congruence|]. right. split; [exact N2|]. split; [congruence|].
      rewrite P. cbn [new_chan pushed ch_got ch_buf app] in P2. exact P2.
  Qed.
End Told.
