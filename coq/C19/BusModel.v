(* C19 — the event map the event bus hands to pub/sub, types/event_bus.go
   (EventBus.validateAndStringifyEvents and the Publish* methods that take ABCI events:
   PublishEventNewBlock, PublishEventNewBlockHeader, PublishEventTx).  NO proofs.
   This is a transcription of the SPECIFICATION: composite key "type.key" -> the values of ALL
   attributes with that composite key (whatever their Index flag), in order of appearance;
   events with an empty type and attributes with an empty key are skipped; then the method
   appends its reserved pairs: tm.event (NewBlock / NewBlockHeader / Tx) and, for a
   transaction, tx.hash (upper-case hex of the hash) and tx.height (decimal) — appended, so an
   application that emits these composite keys itself makes them multi-valued. *)
From Coq Require Import String List ZArith Bool.
From TM Require Import C19.Query C19.SearchModel C19.BlockModel.
Import ListNotations.

(* (type.key, value) of every attribute the bus publishes, in order *)
Definition bus_pairs (evs : list event) : list (string * string) :=
  map (fun x => (fst (fst x), snd (fst x))) (all_attrs evs).

Inductive pkind := KNewBlock | KNewBlockHeader | KTx.

Definition EventTypeKey : string := "tm.event".

(* hash: fmt.Sprintf("%X", Tx.Hash()) (handed over, not computed here); height: TxResult.Height *)
Definition reserved_pairs (k : pkind) (hash : string) (height : Z) : list (string * string) :=
  match k with
  | KNewBlock => [(EventTypeKey, "NewBlock"%string)]
  | KNewBlockHeader => [(EventTypeKey, "NewBlockHeader"%string)]
  | KTx => [(EventTypeKey, "Tx"%string); (TxHashKey, hash); (TxHeightKey, dec height)]
  end.

(* NewBlock / NewBlockHeader: evs = BeginBlock events ++ EndBlock events; Tx: DeliverTx events *)
Definition bus_map (k : pkind) (evs : list event) (hash : string) (height : Z) : events :=
  group (bus_pairs evs ++ reserved_pairs k hash height).
