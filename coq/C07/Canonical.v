(* C07 — the integer fields of the canonical vote as the wire carries them.
   types/canonical.go CanonicalizeVote, proto/tendermint/types/canonical.proto CanonicalVote:
     type    SignedMsgType        varint enum
     height  sfixed64             "canonicalization requires fixed size encoding here"
     round   sfixed64             int64(vote.Round): the int32 round, sign-extended
     block_id, timestamp, chain_id
   sfixed64 = the 8 little-endian bytes of the two's complement of the int64 value.
   Model.v keeps the sign-bytes as the record [signmsg] with unbounded heights and rounds; this
   file adds the widths: the record with height and round replaced by their 8 wire bytes.  For
   int64 heights and rounds (every value a Go vote can hold) the two carry the same information
   (Proofs.v canonical_record_inj, Props.v C07_canonical_record_injective); a narrower field
   would not (Props.v C07_canonical_width_needed).  Definitions only, no proofs. *)
From Coq Require Import List ZArith.
From TM Require Import C07.Model.
Import ListNotations.
Open Scope Z_scope.

(* the n low-order bytes of z >= 0, least significant first *)
Fixpoint le_bytes (n : nat) (z : Z) : list Z :=
  match n with
  | O => []
  | S n' => z mod 256 :: le_bytes n' (z / 256)
  end.

(* protobuf sfixed64 of an int64 value *)
Definition sfixed64 (z : Z) : list Z := le_bytes 8 (z mod 18446744073709551616).

(* what a field of width 4 bytes would carry (for the counter-example only) *)
Definition sfixed32 (z : Z) : list Z := le_bytes 4 (z mod 4294967296).

Definition int64_range (z : Z) : Prop := min_int64 <= z <= max_int64.

Record canon_record := {
  cr_chain : Z; cr_type : Z;
  cr_height : list Z;             (* 8 bytes *)
  cr_round : list Z;              (* 8 bytes *)
  cr_bid : option blockid; cr_ts : Z
}.

Definition canonical_record (m : signmsg) : canon_record :=
  {| cr_chain := sm_chain m; cr_type := sm_type m;
     cr_height := sfixed64 (sm_height m); cr_round := sfixed64 (sm_round m);
     cr_bid := sm_bid m; cr_ts := sm_ts m |}.

Definition signmsg_in_range (m : signmsg) : Prop :=
  int64_range (sm_height m) /\ int64_range (sm_round m).

(* ---- a signature oracle at the level of the wire record: a signature made by key k over the
   sign-bytes of m' verifies under pk for m iff k = pk and the two canonical records carry the
   same bytes.  On int64 heights/rounds it is the oracle [ideal_verify] the run uses
   (Props.v C07_wire_oracle_is_ideal). *)
Fixpoint zlist_eqb (a b : list Z) : bool :=
  match a, b with
  | [], [] => true
  | x :: a', y :: b' => (x =? y) && zlist_eqb a' b'
  | _, _ => false
  end.

Definition canon_record_eqb (a b : canon_record) : bool :=
  (cr_chain a =? cr_chain b) && (cr_type a =? cr_type b) && zlist_eqb (cr_height a) (cr_height b)
  && zlist_eqb (cr_round a) (cr_round b) && opt_z_eqb (cr_bid a) (cr_bid b) && (cr_ts a =? cr_ts b).

Definition wire_verify (pk : key) (m : signmsg) (s : isig) : bool :=
  match s with
  | Signed k m' => (k =? pk) && canon_record_eqb (canonical_record m') (canonical_record m)
  | Garbage => false
  end.
