(* C07 — executable side of the correspondence check: the case type written by the Go harness
   (harness/overlay/types/verif_c07_test.go), the property monitors evaluated on the
   implementation's own answers, and the comparison of the model with the implementation.
   Depends on Model.v only. *)
From Coq Require Import List ZArith NArith Bool.
From TM Require Import Common.Hex Generated.Consts C07.Model.
Import ListNotations.
Open Scope Z_scope.

(* What a slot's signature was made over (the harness made it, so it knows).
   [base] of the run = (chain, height, round, block id) the honest signers signed. *)
Inductive sdesc :=
| SB (k ts : Z)                          (* key k over base, for the block, timestamp ts *)
| SN (k ts : Z)                          (* key k over base, for nil *)
| SO (k ty chain h r bid ts : Z)         (* key k over an explicit canonical vote (bid 0 = nil) *)
| SG.                                    (* random bytes *)

Definition slott := (Z * Z * Z * sdesc)%type.          (* flag, address, timestamp, signature *)
Definition rest := (N * Z * Z)%type.                   (* class, Got, Needed *)

(* one commit checked against the case's validator set by the three entry points *)
Inductive run :=
| Run (args : Z * Z * Z)                 (* chainID, blockID, height passed by the caller *)
      (cm : Z * Z * Z)                   (* commit.Height, commit.Round, commit.BlockID *)
      (base : Z * Z * Z * Z)             (* chain, height, round, block id signed by SB/SN slots *)
      (sigs : list slott)
      (frac : Z * Z)                     (* trust level numerator, denominator (uint64) *)
      (rf rl rt : rest).                 (* VerifyCommit, VerifyCommitLight, ...Trusting *)

(* validators as (address, key, power) *)
Inductive case := CSet (vals : list (Z * Z * Z)) (runs : list run).

Definition mk_val (t : Z * Z * Z) : validator :=
  let '(a, k, p) := t in {| v_addr := a; v_key := k; v_power := p |}.

Definition mk_msg (ty chain h r bid ts : Z) : signmsg :=
  {| sm_chain := chain; sm_type := ty; sm_height := h; sm_round := r;
     sm_bid := if bid =? 0 then None else Some bid; sm_ts := ts |}.

Definition mk_sig (base : Z * Z * Z * Z) (d : sdesc) : isig :=
  let '(ch, h, r, b) := base in
  match d with
  | SB k ts => Signed k (mk_msg precommit_type ch h r b ts)
  | SN k ts => Signed k (mk_msg precommit_type ch h r 0 ts)
  | SO k ty c' h' r' b' ts => Signed k (mk_msg ty c' h' r' b' ts)
  | SG => Garbage
  end.

Definition mk_cs (base : Z * Z * Z * Z) (s : slott) : commitsig isig :=
  let '(f, a, ts, d) := s in
  {| cs_flag := f; cs_addr := a; cs_ts := ts; cs_sig := mk_sig base d |}.

(* result classes: 0 ok, 1 ErrInvalidCommitSignatures, 2 ErrInvalidCommitHeight,
   3 ErrNotEnoughVotingPowerSigned{Got,Needed}, 4 any other error, 5 panic *)
Definition res_code (r : vresult) : rest :=
  match r with
  | R_ok => (0%N, 0, 0)
  | R_err_size => (1%N, 0, 0)
  | R_err_height => (2%N, 0, 0)
  | R_err_power g n => (3%N, g, n)
  | R_err_blockid | R_err_sig _ | R_err_double _ _ | R_err_zero_den | R_err_overflow => (4%N, 0, 0)
  | R_panic => (5%N, 0, 0)
  end.

Definition rest_eqb (a b : rest) : bool :=
  let '(c1, g1, n1) := a in let '(c2, g2, n2) := b in (c1 =? c2)%N && (g1 =? g2) && (n1 =? n2).

Definition accepted (r : rest) : bool := let '(c, _, _) := r in (c =? 0)%N.

Definition mism (b : bool) (code : N) : verdict := if b then V_ok else V_mismatch code.
Definition viol (b : bool) (clause : N) : verdict := if b then V_ok else V_violation clause.

(* ---- reference quantities for the monitors: plain unbounded Z, no model function involved
   beyond ideal_verify (signature made by that key over that message) *)

(* the slot is flagged for the block and carries a signature of key [k] over exactly
   (chain, precommit, h, r, bid, the slot's timestamp) *)
Definition good_slot (chain h r bid : Z) (k : Z) (cs : commitsig isig) : bool :=
  (cs_flag cs =? block_id_flag_commit)
  && ideal_verify k (mk_msg precommit_type chain h r bid (cs_ts cs)) (cs_sig cs).

(* positional tally (validator i <-> slot i) *)
Fixpoint pos_tally (chain h r bid : Z) (vs : list validator) (sigs : list (commitsig isig)) : Z :=
  match vs, sigs with
  | v :: vs', cs :: sigs' =>
    (if good_slot chain h r bid (v_key v) cs then v_power v else 0) + pos_tally chain h r bid vs' sigs'
  | _, _ => 0
  end.

(* tally by address: every validator counted at most once, if some slot with its address is good *)
Definition addr_tally (chain h r bid : Z) (vs : list validator) (sigs : list (commitsig isig)) : Z :=
  fold_right (fun v acc =>
    (if existsb (fun cs => (cs_addr cs =? v_addr v) && good_slot chain h r bid (v_key v) cs) sigs
     then v_power v else 0) + acc) 0 vs.

Fixpoint nodup_z (l : list Z) : bool :=
  match l with [] => true | x :: r => negb (existsb (Z.eqb x) r) && nodup_z r end.

(* every non-absent slot has a known flag and a signature by the validator at its position
   over the vote the slot stands for *)
Fixpoint all_sigs_valid (chain h r bid : Z) (vs : list validator) (sigs : list (commitsig isig)) : bool :=
  match vs, sigs with
  | v :: vs', cs :: sigs' =>
    (if cs_flag cs =? block_id_flag_absent then true
     else if cs_flag cs =? block_id_flag_commit
          then ideal_verify (v_key v) (mk_msg precommit_type chain h r bid (cs_ts cs)) (cs_sig cs)
     else if cs_flag cs =? block_id_flag_nil
          then ideal_verify (v_key v) (mk_msg precommit_type chain h r 0 (cs_ts cs)) (cs_sig cs)
     else false) && all_sigs_valid chain h r bid vs' sigs'
  | _, _ => true
  end.

Definition check_run (vs : list validator) (r : run) : list verdict :=
  match r with
  | Run (chain, bid, h) (ch, cr, cb) base sigs (num, den) rf rl rt =>
    let css := map (mk_cs base) sigs in
    let c := {| c_height := ch; c_round := cr; c_bid := cb; c_sigs := css |} in
    let total := sum_power vs in
    let wf := wf_valsetb vs in
    let same_len := Nat.eqb (List.length vs) (List.length css) in
    [ (* clause 1/2: accepted by the full / early-exit variant => one slot per validator, and
         for-the-block signatures valid for exactly (chain, h, commit round, bid) from the
         validators at their positions carry more than 2/3 of the total *)
      viol (negb (wf && accepted rf)
            || (same_len && (3 * pos_tally chain h cr bid vs css >? 2 * total))) 1;
      viol (negb (wf && accepted rl)
            || (same_len && (3 * pos_tally chain h cr bid vs css >? 2 * total))) 2;
      (* clause 3: accepted by the trusting variant => distinct members of the set with a
         for-the-block signature valid for (chain, commit height, round, block id) carry more
         than num/den of the total.  Stated for fractions within int64 (see F14). *)
      viol (negb (wf && accepted rt && nodup_z (map v_addr vs)
                  && (num <=? max_int64) && (den <=? max_int64))
            || (den * addr_tally chain ch cr cb vs css >? num * total)) 3;
      (* clause 4: all signatures valid => both variants give the same verdict *)
      viol (negb (wf && same_len && all_sigs_valid chain ch cr cb vs css)
            || Bool.eqb (accepted rf) (accepted rl)) 4;
      (* model vs implementation *)
      mism (rest_eqb (res_code (verify_commit ideal_verify vs chain bid h c)) rf) 11;
      mism (rest_eqb (res_code (verify_commit_light ideal_verify vs chain bid h c)) rl) 12;
      mism (rest_eqb (res_code (verify_commit_light_trusting ideal_verify vs chain c num den)) rt) 13 ]
  end.

Definition check (c : case) : verdict :=
  match c with
  | CSet vals runs =>
    let vs := map mk_val vals in
    first_of (flat_map (check_run vs) runs)
  end.
