(* C07 — model of commit verification: types/validator_set.go VerifyCommit, VerifyCommitLight,
   VerifyCommitLightTrusting, TotalVotingPower/updateTotalVotingPower, GetByAddress, safeAddClip,
   safeMul; types/block.go CommitSig.{Absent,ForBlock,BlockID}, Commit.{GetVote,VoteSignBytes,
   ValidateBasic}, CommitSig.ValidateBasic; types/canonical.go CanonicalizeVote (as a record);
   libs/math/fraction.go (a fraction is a pair of uint64 values).
   Transcribed by hand, branch by branch in the order of the source; tied to /repo by
   Generated/Consts.v (flag values, PrecommitType, MaxTotalVotingPower) and by the
   correspondence run (harness/overlay/types/verif_c07_test.go).  No proofs in this file.

   Interface for other properties (C06, C09, C13, C18, C20):
     validator, commitsig, commit, signmsg, vresult, wf_valset, sum_power,
     verify_commit / verify_commit_light / verify_commit_light_trusting (the code, int64 wrap),
     isig / ideal_verify (symbolic signatures for running the model).

   Abstractions (what the harness maps Go values to):
   * addresses, public keys, chain ids, block ids are integers; equal Go values <-> equal
     integers.  Block id 0 is the zero BlockID (BlockID.IsZero), the only one whose canonical
     form is nil.
   * sign-bytes are the record [signmsg] of exactly the fields CanonicalizeVote keeps.
   * signature verification is a parameter [sig_verify]; nothing is assumed about it. *)
From Coq Require Import List ZArith NArith Bool.
From TM Require Import Generated.Consts.
Import ListNotations.
Open Scope Z_scope.

(* ------------------------------------------------------------------ int64 arithmetic *)

Definition max_int64 : Z := 9223372036854775807.
Definition min_int64 : Z := -9223372036854775808.
Definition max_uint64 : Z := 18446744073709551615.

(* two's complement wrap of a mathematical integer into int64; also the conversion
   int64(x) of a uint64 value x *)
Definition wrap64 (z : Z) : Z := (z + 9223372036854775808) mod 18446744073709551616 - 9223372036854775808.

(* validator_set.go safeAdd + safeAddClip (a, b are int64 values) *)
Definition safe_add_clip (a b : Z) : Z :=
  if (b >? 0) && (a >? max_int64 - b) then max_int64
  else if (b <? 0) && (a <? min_int64 - b) then min_int64
  else a + b.

(* ------------------------------------------------------------------ data *)

Definition addr := Z.
Definition key := Z.
Definition blockid := Z.          (* 0 = zero BlockID *)

Record validator := { v_addr : addr; v_key : key; v_power : Z }.

(* what CanonicalizeVote keeps: the message a precommit signature is over *)
Record signmsg := {
  sm_chain : Z; sm_type : Z; sm_height : Z; sm_round : Z;
  sm_bid : option blockid;        (* None = nil (canonical form of the zero BlockID) *)
  sm_ts : Z
}.

Definition opt_z_eqb (a b : option Z) : bool :=
  match a, b with
  | None, None => true
  | Some x, Some y => x =? y
  | _, _ => false
  end.

Definition signmsg_eqb (a b : signmsg) : bool :=
  (sm_chain a =? sm_chain b) && (sm_type a =? sm_type b) && (sm_height a =? sm_height b)
  && (sm_round a =? sm_round b) && opt_z_eqb (sm_bid a) (sm_bid b) && (sm_ts a =? sm_ts b).

(* mathematical sum of the powers, and the well-formedness every set produced by
   NewValidatorSet / UpdateWithChangeSet / ValidatorSet.ValidateBasic+TotalVotingPower has *)
Fixpoint sum_power (vs : list validator) : Z :=
  match vs with [] => 0 | v :: r => v_power v + sum_power r end.

Definition wf_valset (vs : list validator) : Prop :=
  Forall (fun v => 0 <= v_power v) vs /\ sum_power vs <= max_total_voting_power.

Definition wf_valsetb (vs : list validator) : bool :=
  forallb (fun v => 0 <=? v_power v) vs && (sum_power vs <=? max_total_voting_power).

(* updateTotalVotingPower; None = panic ("Total voting power should be guarded ...").
   TotalVotingPower() caches the result in an unexported field; the cache is not modelled
   (a set whose cache is 0 recomputes, and the harness builds sets with an empty cache). *)
Fixpoint tvp_loop (vs : list validator) (sum : Z) : option Z :=
  match vs with
  | [] => Some sum
  | v :: r =>
    let s := safe_add_clip sum (v_power v) in
    if s >? max_total_voting_power then None else tvp_loop r s
  end.
Definition total_voting_power (vs : list validator) : option Z := tvp_loop vs 0.

(* GetByAddress: index and validator of the first entry with that address *)
Fixpoint get_by_address (vs : list validator) (a : addr) (idx : nat) : option (nat * validator) :=
  match vs with
  | [] => None
  | v :: r => if v_addr v =? a then Some (idx, v) else get_by_address r a (S idx)
  end.

(* outcome of a verification call.  R_err_power carries the exported fields of
   ErrNotEnoughVotingPowerSigned; the other payloads only appear in message texts. *)
Inductive vresult :=
| R_ok
| R_err_size                       (* ErrInvalidCommitSignatures *)
| R_err_height                     (* ErrInvalidCommitHeight *)
| R_err_blockid                    (* "invalid commit -- wrong block ID" *)
| R_err_sig (idx : Z)              (* "wrong signature (#idx)" *)
| R_err_power (got needed : Z)     (* ErrNotEnoughVotingPowerSigned *)
| R_err_double (val_idx second : Z)(* "double vote from ..." *)
| R_err_zero_den                   (* "trustLevel has zero Denominator" *)
| R_err_overflow                   (* "int64 overflow while calculating voting power needed" *)
| R_panic.                         (* unknown BlockIDFlag in CommitSig.BlockID; total power panic *)

Section Verify.

Variable sig : Type.
Variable sig_verify : key -> signmsg -> sig -> bool.   (* PubKey.VerifySignature *)

(* Every int64 addition/multiplication/negation/conversion result passes through [w].
   The code is [w := wrap64]; C07_no_overflow shows that on well-formed sets (and fractions
   within int64) [w := id] gives the same answers. *)
Variable w : Z -> Z.

Record commitsig := { cs_flag : Z; cs_addr : addr; cs_ts : Z; cs_sig : sig }.
Record commit := { c_height : Z; c_round : Z; c_bid : blockid; c_sigs : list commitsig }.

Definition cs_absent (cs : commitsig) : bool := cs_flag cs =? block_id_flag_absent.
Definition cs_for_block (cs : commitsig) : bool := cs_flag cs =? block_id_flag_commit.

(* CommitSig.BlockID; None = panic on an unknown flag *)
Definition cs_block_id (cs : commitsig) (commit_bid : blockid) : option blockid :=
  if cs_flag cs =? block_id_flag_absent then Some 0
  else if cs_flag cs =? block_id_flag_commit then Some commit_bid
  else if cs_flag cs =? block_id_flag_nil then Some 0
  else None.

(* CanonicalizeBlockID *)
Definition canon_bid (b : blockid) : option blockid := if b =? 0 then None else Some b.

(* the canonical vote for block id [b] at the commit's height/round with timestamp [ts] *)
Definition sign_msg (chain : Z) (h r : Z) (b : blockid) (ts : Z) : signmsg :=
  {| sm_chain := chain; sm_type := precommit_type; sm_height := h; sm_round := r;
     sm_bid := canon_bid b; sm_ts := ts |}.

(* Commit.VoteSignBytes(chainID, idx) = VoteSignBytes(chainID, GetVote(idx)) *)
Definition vote_sign_bytes (chain : Z) (c : commit) (cs : commitsig) : option signmsg :=
  match cs_block_id cs (c_bid c) with
  | None => None
  | Some b => Some (sign_msg chain (c_height c) (c_round c) b (cs_ts cs))
  end.

(* ---- VerifyCommit: the loop over commit.Signatures, vals.Validators[idx] in parallel *)
Fixpoint vc_loop (chain : Z) (c : commit) (needed : Z)
         (vs : list validator) (sigs : list commitsig) (idx tallied : Z) {struct sigs} : vresult :=
  match sigs with
  | [] => if tallied <=? needed then R_err_power tallied needed else R_ok
  | cs :: sigs' =>
    match vs with
    | [] => R_panic                                   (* index out of range; excluded by the size check *)
    | v :: vs' =>
      if cs_absent cs then vc_loop chain c needed vs' sigs' (idx + 1) tallied
      else
        match vote_sign_bytes chain c cs with
        | None => R_panic
        | Some m =>
          if negb (sig_verify (v_key v) m (cs_sig cs)) then R_err_sig idx
          else vc_loop chain c needed vs' sigs' (idx + 1)
                       (if cs_for_block cs then w (tallied + v_power v) else tallied)
        end
    end
  end.

Definition verify_commit_w (vs : list validator) (chain : Z) (bid : blockid) (h : Z) (c : commit)
  : vresult :=
  if negb (Nat.eqb (length vs) (length (c_sigs c))) then R_err_size
  else if negb (h =? c_height c) then R_err_height
  else if negb (bid =? c_bid c) then R_err_blockid
  else
    match total_voting_power vs with
    | None => R_panic
    | Some total =>
      let needed := Z.quot (w (total * 2)) 3 in
      vc_loop chain c needed vs (c_sigs c) 0 0
    end.

(* ---- VerifyCommitLight *)
Fixpoint vl_loop (chain : Z) (c : commit) (needed : Z)
         (vs : list validator) (sigs : list commitsig) (idx tallied : Z) {struct sigs} : vresult :=
  match sigs with
  | [] => R_err_power tallied needed
  | cs :: sigs' =>
    match vs with
    | [] => R_panic
    | v :: vs' =>
      if negb (cs_for_block cs) then vl_loop chain c needed vs' sigs' (idx + 1) tallied
      else
        match vote_sign_bytes chain c cs with
        | None => R_panic
        | Some m =>
          if negb (sig_verify (v_key v) m (cs_sig cs)) then R_err_sig idx
          else
            let t := w (tallied + v_power v) in
            if t >? needed then R_ok
            else vl_loop chain c needed vs' sigs' (idx + 1) t
        end
    end
  end.

Definition verify_commit_light_w (vs : list validator) (chain : Z) (bid : blockid) (h : Z)
           (c : commit) : vresult :=
  if negb (Nat.eqb (length vs) (length (c_sigs c))) then R_err_size
  else if negb (h =? c_height c) then R_err_height
  else if negb (bid =? c_bid c) then R_err_blockid
  else
    match total_voting_power vs with
    | None => R_panic
    | Some total =>
      let needed := Z.quot (w (total * 2)) 3 in
      vl_loop chain c needed vs (c_sigs c) 0 0
    end.

(* ---- VerifyCommitLightTrusting *)

(* safeMul on int64 values *)
Definition safe_mul (a b : Z) : Z * bool :=
  if (a =? 0) || (b =? 0) then (0, false)
  else
    let abs_b := if b <? 0 then w (- b) else b in
    let abs_a := if a <? 0 then w (- a) else a in
    if abs_a >? Z.quot max_int64 abs_b then (0, true)
    else (w (a * b), false).

(* [seen]: validator indices already counted (the keys of seenVals) *)
Fixpoint vt_loop (chain : Z) (c : commit) (needed : Z) (vs : list validator)
         (sigs : list commitsig) (idx tallied : Z) (seen : list nat) : vresult :=
  match sigs with
  | [] => R_err_power tallied needed
  | cs :: sigs' =>
    if negb (cs_for_block cs) then vt_loop chain c needed vs sigs' (idx + 1) tallied seen
    else
      match get_by_address vs (cs_addr cs) O with
      | None => vt_loop chain c needed vs sigs' (idx + 1) tallied seen
      | Some (vi, v) =>
        if existsb (Nat.eqb vi) seen then R_err_double (Z.of_nat vi) idx
        else
          match vote_sign_bytes chain c cs with
          | None => R_panic
          | Some m =>
            if negb (sig_verify (v_key v) m (cs_sig cs)) then R_err_sig idx
            else
              let t := w (tallied + v_power v) in
              if t >? needed then R_ok
              else vt_loop chain c needed vs sigs' (idx + 1) t (vi :: seen)
          end
      end
  end.

(* [num], [den]: the uint64 fields of tmmath.Fraction (0 <= . <= max_uint64) *)
Definition verify_commit_light_trusting_w (vs : list validator) (chain : Z) (c : commit)
           (num den : Z) : vresult :=
  if den =? 0 then R_err_zero_den
  else
    match total_voting_power vs with
    | None => R_panic
    | Some total =>
      let '(prod, overflow) := safe_mul total (w num) in
      if overflow then R_err_overflow
      else
        let needed := w (Z.quot prod (w den)) in
        vt_loop chain c needed vs (c_sigs c) 0 0 []
    end.

(* ---- Commit.ValidateBasic / CommitSig.ValidateBasic as far as they concern the fields above
   (address and signature *lengths* are outside the abstraction) *)
Definition cs_flag_known (cs : commitsig) : bool :=
  (cs_flag cs =? block_id_flag_absent) || (cs_flag cs =? block_id_flag_commit)
  || (cs_flag cs =? block_id_flag_nil).

Definition commit_validate_basic (c : commit) : bool :=
  (0 <=? c_height c) && (0 <=? c_round c) &&
  (if 1 <=? c_height c
   then negb (c_bid c =? 0) && negb (Nat.eqb (length (c_sigs c)) 0) && forallb cs_flag_known (c_sigs c)
   else true).

End Verify.

Arguments cs_flag {sig}. Arguments cs_addr {sig}. Arguments cs_ts {sig}. Arguments cs_sig {sig}.
Arguments c_height {sig}. Arguments c_round {sig}. Arguments c_bid {sig}. Arguments c_sigs {sig}.
Arguments cs_absent {sig}. Arguments cs_for_block {sig}. Arguments cs_block_id {sig}.
Arguments cs_flag_known {sig}. Arguments commit_validate_basic {sig}.
Arguments vote_sign_bytes {sig}.

(* the code: int64 wrap-around *)
Definition verify_commit {sig} (sv : key -> signmsg -> sig -> bool) :=
  verify_commit_w sig sv wrap64.
Definition verify_commit_light {sig} (sv : key -> signmsg -> sig -> bool) :=
  verify_commit_light_w sig sv wrap64.
Definition verify_commit_light_trusting {sig} (sv : key -> signmsg -> sig -> bool) :=
  verify_commit_light_trusting_w sig sv wrap64.

(* ------------------------------------------------------------------ symbolic signatures
   Used to *run* the model: the harness made every signature, so it knows for each one which
   key signed which message (or that it is garbage).  A signature verifies under a key and a
   message iff it was made with that key over that message. *)
Inductive isig := Signed (k : key) (m : signmsg) | Garbage.

Definition ideal_verify (pk : key) (m : signmsg) (s : isig) : bool :=
  match s with
  | Signed k m' => (k =? pk) && signmsg_eqb m' m
  | Garbage => false
  end.

(* light.ValidateTrustLevel, with the uint64 wrap of Numerator*3 as written *)
Definition validate_trust_level (num den : Z) : bool :=
  negb (((num * 3) mod 18446744073709551616 <? den) || (num >? den) || (den =? 0)).
