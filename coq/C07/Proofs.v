(* C07 — lemmas and proofs (see Props.v for the property statements).
   Stable names meant for reuse by other properties:
     total_voting_power_wf, verify_commit_iff, verify_commit_sound, verify_commit_light_sound,
     verify_commit_light_trusting_sound, full_implies_light, full_light_agree, no_overflow_*,
     good_tally, block_tally, slot_ok, pw, ideal_verify_binds. *)
From Coq Require Import List ZArith NArith Bool Lia ZifyBool.
From TM Require Import Generated.Consts C07.Model.
Import ListNotations.
Open Scope Z_scope.

(* ------------------------------------------------------------------ symbolic signatures *)

Lemma opt_z_eqb_eq : forall a b, opt_z_eqb a b = true -> a = b.
Proof.
  intros [x|] [y|]; cbn; intro E; try discriminate; try reflexivity.
  apply Z.eqb_eq in E. congruence.
Qed.

Lemma signmsg_eqb_eq : forall a b, signmsg_eqb a b = true -> a = b.
Proof.
  intros [c1 t1 h1 r1 b1 s1] [c2 t2 h2 r2 b2 s2]. unfold signmsg_eqb; cbn.
  rewrite !andb_true_iff, !Z.eqb_eq. intros [[[[[? ?] ?] ?] E] ?].
  apply opt_z_eqb_eq in E. congruence.
Qed.

(* a symbolic signature verifies only under the key that made it and only for the message it
   was made over *)
Lemma ideal_verify_binds : forall pk m s, ideal_verify pk m s = true -> s = Signed pk m.
Proof.
  intros pk m [k m'|]; cbn; intro E; [|discriminate].
  apply andb_true_iff in E as [E1 E2]. apply Z.eqb_eq in E1. apply signmsg_eqb_eq in E2. congruence.
Qed.

(* ------------------------------------------------------------------ arithmetic *)

Lemma max_total_small : 0 <= max_total_voting_power /\ 8 * max_total_voting_power <= max_int64.
Proof. unfold max_total_voting_power, max_int64. lia. Qed.

Lemma wrap64_id : forall z, min_int64 <= z <= max_int64 -> wrap64 z = z.
Proof.
  intros z Hz. unfold wrap64, min_int64, max_int64 in *.
  rewrite Z.mod_small by lia. lia.
Qed.

Lemma safe_add_clip_exact : forall a b,
  0 <= a -> 0 <= b -> a + b <= max_int64 -> safe_add_clip a b = a + b.
Proof.
  intros a b Ha Hb Hab. unfold safe_add_clip.
  assert (E1 : (b >? 0) && (a >? max_int64 - b) = false) by lia.
  assert (E2 : (b <? 0) && (a <? min_int64 - b) = false) by lia.
  rewrite E1, E2. reflexivity.
Qed.

(* strict threshold against a truncated quotient = cross-multiplied comparison *)
Lemma gt_quot_iff : forall t x d, 0 <= x -> 0 < d -> (t > Z.quot x d <-> d * t > x).
Proof.
  intros t x d Hx Hd. rewrite Z.quot_div_nonneg by lia.
  pose proof (Z.div_mod x d ltac:(lia)) as E. pose proof (Z.mod_pos_bound x d Hd) as B.
  split; intro H; nia.
Qed.

Lemma quot_nonneg : forall x d, 0 <= x -> 0 < d -> 0 <= Z.quot x d <= x.
Proof.
  intros x d Hx Hd. rewrite Z.quot_div_nonneg by lia. split.
  - apply Z.div_pos; lia.
  - pose proof (Z.div_mod x d ltac:(lia)) as E. pose proof (Z.mod_pos_bound x d Hd) as B. nia.
Qed.

(* ------------------------------------------------------------------ total voting power *)

Lemma sum_power_nonneg : forall vs, Forall (fun v => 0 <= v_power v) vs -> 0 <= sum_power vs.
Proof. induction 1; cbn; lia. Qed.

Lemma tvp_loop_exact : forall vs s,
  Forall (fun v => 0 <= v_power v) vs -> 0 <= s -> s + sum_power vs <= max_total_voting_power ->
  tvp_loop vs s = Some (s + sum_power vs).
Proof.
  induction vs as [|v r IH]; intros s Hnn Hs Hle; cbn in *.
  - f_equal. lia.
  - inversion Hnn as [|? ? Hv Hr]; subst.
    pose proof (sum_power_nonneg r Hr) as Hr0. pose proof max_total_small as [M0 M8].
    rewrite safe_add_clip_exact by lia.
    destruct (s + v_power v >? max_total_voting_power) eqn:E; [lia|].
    rewrite IH by (try assumption; lia). f_equal. lia.
Qed.

Lemma total_voting_power_wf : forall vs, wf_valset vs -> total_voting_power vs = Some (sum_power vs).
Proof.
  intros vs [Hnn Hle]. unfold total_voting_power. rewrite tvp_loop_exact by (try assumption; lia).
  reflexivity.
Qed.

Lemma wf_valsetb_wf : forall vs, wf_valsetb vs = true -> wf_valset vs.
Proof.
  intros vs H. unfold wf_valsetb in H. apply andb_true_iff in H as [H1 H2]. split.
  - rewrite forallb_forall in H1. apply Forall_forall. intros v Hv. specialize (H1 v Hv). lia.
  - lia.
Qed.

(* ------------------------------------------------------------------ flags *)

Section Flags.
Context {sig : Type}.

Lemma absent_not_for_block : forall cs : commitsig sig, cs_absent cs = true -> cs_for_block cs = false.
Proof.
  intros cs. unfold cs_absent, cs_for_block, block_id_flag_absent, block_id_flag_commit. lia.
Qed.

Lemma for_block_not_absent : forall cs : commitsig sig, cs_for_block cs = true -> cs_absent cs = false.
Proof.
  intros cs. unfold cs_absent, cs_for_block, block_id_flag_absent, block_id_flag_commit. lia.
Qed.

Lemma for_block_sign_bytes : forall chain (c : commit sig) cs,
  cs_for_block cs = true ->
  vote_sign_bytes chain c cs = Some (sign_msg chain (c_height c) (c_round c) (c_bid c) (cs_ts cs)).
Proof.
  intros chain c cs H. unfold vote_sign_bytes, cs_block_id.
  pose proof (for_block_not_absent cs H) as Ha. unfold cs_absent in Ha. unfold cs_for_block in H.
  rewrite Ha, H. reflexivity.
Qed.

End Flags.

(* ------------------------------------------------------------------ sums over index sets *)

Definition pw_at (vs : list validator) (i : nat) : Z :=
  match nth_error vs i with Some v => v_power v | None => 0 end.

(* power of the members with indices in S *)
Fixpoint pw (vs : list validator) (S : list nat) : Z :=
  match S with [] => 0 | i :: r => pw_at vs i + pw vs r end.

Lemma pw_at_nonneg : forall vs i, Forall (fun v => 0 <= v_power v) vs -> 0 <= pw_at vs i.
Proof.
  intros vs i H. unfold pw_at. destruct (nth_error vs i) as [v|] eqn:E; [|lia].
  apply nth_error_In in E. rewrite Forall_forall in H. apply H; assumption.
Qed.

Lemma pw_nonneg : forall vs S, Forall (fun v => 0 <= v_power v) vs -> 0 <= pw vs S.
Proof. intros vs S H. induction S as [|i r IH]; cbn [pw]; [lia|]. pose proof (pw_at_nonneg vs i H). lia. Qed.

Lemma pw_app : forall vs a b, pw vs (a ++ b) = pw vs a + pw vs b.
Proof. intros vs a b. induction a as [|i a IH]; cbn [pw app]; lia. Qed.

Lemma pw_incl_le : forall vs, Forall (fun v => 0 <= v_power v) vs ->
  forall S, NoDup S -> forall l, (forall x, In x S -> ~ In x l -> pw_at vs x = 0) -> pw vs S <= pw vs l.
Proof.
  intros vs Hnn S HS. induction HS as [|a S' Ha HS' IH]; intros l Hout; cbn [pw].
  - apply pw_nonneg; assumption.
  - destruct (in_dec Nat.eq_dec a l) as [Hin|Hnin].
    + apply in_split in Hin as [l1 [l2 ->]].
      assert (H' : pw vs S' <= pw vs (l1 ++ l2)).
      { apply IH. intros x Hx Hnx. apply Hout; [right; assumption|].
        intro Hc. apply Hnx. apply in_app_or in Hc as [Hc|[Hc|Hc]].
        - apply in_or_app; left; assumption.
        - subst x. contradiction.
        - apply in_or_app; right; assumption. }
      rewrite pw_app in *. cbn [pw]. lia.
    + rewrite (Hout a (or_introl eq_refl) Hnin).
      assert (H' : pw vs S' <= pw vs l) by (apply IH; intros x Hx; apply Hout; right; assumption).
      lia.
Qed.

Lemma pw_shift : forall v r l, pw (v :: r) (map S l) = pw r l.
Proof. intros v r l. induction l as [|i l IH]; cbn [pw map]; [reflexivity|]. rewrite IH. reflexivity. Qed.

Lemma pw_all : forall vs, pw vs (seq 0 (length vs)) = sum_power vs.
Proof.
  induction vs as [|v r IH]; [reflexivity|].
  cbn [length seq]. rewrite <- seq_shift. cbn [pw sum_power]. rewrite pw_shift, IH. reflexivity.
Qed.

(* distinct members never carry more than the whole set *)
Lemma pw_le_sum : forall vs S, Forall (fun v => 0 <= v_power v) vs -> NoDup S -> pw vs S <= sum_power vs.
Proof.
  intros vs S Hnn HS. rewrite <- pw_all. apply pw_incl_le; try assumption.
  intros x _ Hx. unfold pw_at. destruct (nth_error vs x) eqn:E; [|reflexivity].
  exfalso. apply Hx. apply in_seq. split; [lia|]. cbn. apply nth_error_Some. congruence.
Qed.

Lemma get_by_address_spec : forall vs a k vi v,
  get_by_address vs a k = Some (vi, v) ->
  (k <= vi)%nat /\ nth_error vs (vi - k) = Some v /\ v_addr v = a.
Proof.
  induction vs as [|x r IH]; intros a k vi v H; cbn [get_by_address] in H; [discriminate|].
  destruct (v_addr x =? a) eqn:E.
  - injection H as <- <-. rewrite Nat.sub_diag. split; [lia|]. split; [reflexivity|lia].
  - apply IH in H as [H1 [H2 H3]]. split; [lia|]. split; [|assumption].
    replace (vi - k)%nat with (S (vi - S k)) by lia. exact H2.
Qed.

(* ------------------------------------------------------------------ the three entry points *)

Definition idw (z : Z) : Z := z.

Section Main.
Variable sig : Type.
Variable sv : key -> signmsg -> sig -> bool.

Notation nonneg := (Forall (fun v => 0 <= v_power v)).

(* a non-absent slot has a known flag and carries a signature of the validator at its position
   over the vote the slot stands for (for the block, or for nil) *)
Definition slot_ok (chain : Z) (c : commit sig) (v : validator) (cs : commitsig sig) : Prop :=
  cs_absent cs = true \/
  exists m, vote_sign_bytes chain c cs = Some m /\ sv (v_key v) m (cs_sig cs) = true.

Definition all_slots_ok (chain : Z) (c : commit sig) (vs : list validator) (sigs : list (commitsig sig)) : Prop :=
  Forall (fun p => slot_ok chain c (fst p) (snd p)) (combine vs sigs).

(* power behind the slots flagged for the block, by position; signatures not looked at *)
Fixpoint block_tally (vs : list validator) (sigs : list (commitsig sig)) : Z :=
  match vs, sigs with
  | v :: vs', cs :: sigs' => (if cs_for_block cs then v_power v else 0) + block_tally vs' sigs'
  | _, _ => 0
  end.

(* flagged for the block AND the signature verifies under the validator's key for exactly
   (chain, precommit, h, r, bid, the slot's timestamp) *)
Definition good_slot (chain h r : Z) (bid : blockid) (v : validator) (cs : commitsig sig) : bool :=
  cs_for_block cs && sv (v_key v) (sign_msg chain h r bid (cs_ts cs)) (cs_sig cs).

Fixpoint good_tally (chain h r : Z) (bid : blockid) (vs : list validator) (sigs : list (commitsig sig)) : Z :=
  match vs, sigs with
  | v :: vs', cs :: sigs' =>
    (if good_slot chain h r bid v cs then v_power v else 0) + good_tally chain h r bid vs' sigs'
  | _, _ => 0
  end.

Lemma good_tally_nonneg : forall chain h r bid vs sigs, nonneg vs -> 0 <= good_tally chain h r bid vs sigs.
Proof.
  intros chain h r bid vs. induction vs as [|v vs IH]; intros sigs H; [reflexivity|].
  destruct sigs as [|cs sigs]; [reflexivity|]. cbn [good_tally]. inversion H; subst.
  specialize (IH sigs ltac:(assumption)). destruct (good_slot chain h r bid v cs); lia.
Qed.

Lemma block_tally_nonneg : forall vs sigs, nonneg vs -> 0 <= block_tally vs sigs.
Proof.
  induction vs as [|v vs IH]; intros sigs H; [reflexivity|].
  destruct sigs as [|cs sigs]; [reflexivity|]. cbn [block_tally]. inversion H; subst.
  specialize (IH sigs ltac:(assumption)). destruct (cs_for_block cs); lia.
Qed.

Lemma good_le_block : forall chain h r bid vs sigs, nonneg vs ->
  good_tally chain h r bid vs sigs <= block_tally vs sigs.
Proof.
  intros chain h r bid vs. induction vs as [|v vs IH]; intros sigs H; [reflexivity|].
  destruct sigs as [|cs sigs]; [reflexivity|]. cbn [good_tally block_tally]. inversion H; subst.
  specialize (IH sigs ltac:(assumption)). unfold good_slot.
  destruct (cs_for_block cs); cbn [andb]; [|lia].
  destruct (sv (v_key v) (sign_msg chain h r bid (cs_ts cs)) (cs_sig cs)); lia.
Qed.

Lemma block_tally_le_sum : forall vs sigs, nonneg vs -> block_tally vs sigs <= sum_power vs.
Proof.
  induction vs as [|v vs IH]; intros sigs H; [reflexivity|]. inversion H; subst.
  destruct sigs as [|cs sigs]; cbn [block_tally sum_power].
  - pose proof (sum_power_nonneg vs ltac:(assumption)). lia.
  - specialize (IH sigs ltac:(assumption)). destruct (cs_for_block cs); lia.
Qed.

(* when every slot is ok, the flagged power is the verified power *)
Lemma all_ok_block_good : forall chain c vs sigs,
  all_slots_ok chain c vs sigs ->
  block_tally vs sigs = good_tally chain (c_height c) (c_round c) (c_bid c) vs sigs.
Proof.
  intros chain c vs. induction vs as [|v vs IH]; intros sigs H; [reflexivity|].
  destruct sigs as [|cs sigs]; [reflexivity|]. unfold all_slots_ok in H. cbn [combine] in H.
  apply Forall_cons_iff in H as [H1 H2]. cbn [fst snd] in H1.
  cbn [block_tally good_tally]. rewrite (IH sigs H2). unfold good_slot.
  destruct (cs_for_block cs) eqn:Ef; cbn [andb]; [|reflexivity].
  destruct H1 as [Ha|[m [Em Es]]].
  - rewrite (absent_not_for_block cs Ha) in Ef. discriminate.
  - rewrite (for_block_sign_bytes chain c cs Ef) in Em. injection Em as <-. rewrite Es. reflexivity.
Qed.

Section Loops.
Variable chain : Z.
Variable c : commit sig.
Variable needed : Z.

Let gt := good_tally chain (c_height c) (c_round c) (c_bid c).

(* ---- VerifyCommit *)

Lemma vc_loop_cons : forall w v vs cs sigs idx t,
  vc_loop sig sv w chain c needed (v :: vs) (cs :: sigs) idx t =
  if cs_absent cs then vc_loop sig sv w chain c needed vs sigs (idx + 1) t
  else match vote_sign_bytes chain c cs with
       | None => R_panic
       | Some m =>
         if negb (sv (v_key v) m (cs_sig cs)) then R_err_sig idx
         else vc_loop sig sv w chain c needed vs sigs (idx + 1)
                      (if cs_for_block cs then w (t + v_power v) else t)
       end.
Proof. reflexivity. Qed.

Lemma vc_loop_ok_iff : forall sigs vs idx t, length vs = length sigs ->
  (vc_loop sig sv idw chain c needed vs sigs idx t = R_ok <->
   all_slots_ok chain c vs sigs /\ t + block_tally vs sigs > needed).
Proof.
  induction sigs as [|cs sigs IH]; intros vs idx t Hlen; destruct vs as [|v vs]; try discriminate Hlen.
  - cbn [vc_loop block_tally]. unfold all_slots_ok. cbn [combine].
    destruct (t <=? needed) eqn:E; split; intro H; try discriminate.
    + destruct H; lia.
    + split; [constructor | lia].
    + reflexivity.
  - rewrite vc_loop_cons. cbn [block_tally]. unfold all_slots_ok. cbn [combine].
    rewrite Forall_cons_iff. cbn [fst snd]. injection Hlen as Hlen.
    fold (all_slots_ok chain c vs sigs).
    destruct (cs_absent cs) eqn:Ea.
    + rewrite (absent_not_for_block cs Ea). rewrite (IH vs (idx + 1) t Hlen).
      split; intros H.
      * destruct H as [A B]. split; [split; [left; exact Ea | exact A] | lia].
      * destruct H as [[_ A] B]. split; [exact A | lia].
    + destruct (vote_sign_bytes chain c cs) as [m|] eqn:Em.
      * destruct (sv (v_key v) m (cs_sig cs)) eqn:Es; cbn [negb].
        -- rewrite (IH vs (idx + 1) _ Hlen). unfold idw. split; intros H.
           ++ destruct H as [A B]. split; [split; [right; exists m; split; assumption | exact A]|].
              destruct (cs_for_block cs); lia.
           ++ destruct H as [[_ A] B]. split; [exact A|]. destruct (cs_for_block cs); lia.
        -- split; [discriminate|]. intros [[[A|[m' [E1 E2]]] _] _]; congruence.
      * split; [discriminate|]. intros [[[A|[m' [E1 E2]]] _] _]; congruence.
Qed.

(* ---- VerifyCommitLight *)

Lemma vl_loop_cons : forall w v vs cs sigs idx t,
  vl_loop sig sv w chain c needed (v :: vs) (cs :: sigs) idx t =
  if negb (cs_for_block cs) then vl_loop sig sv w chain c needed vs sigs (idx + 1) t
  else match vote_sign_bytes chain c cs with
       | None => R_panic
       | Some m =>
         if negb (sv (v_key v) m (cs_sig cs)) then R_err_sig idx
         else let t' := w (t + v_power v) in
              if t' >? needed then R_ok
              else vl_loop sig sv w chain c needed vs sigs (idx + 1) t'
       end.
Proof. reflexivity. Qed.

(* accepted => the power behind *verified* for-the-block signatures exceeds the threshold *)
Lemma vl_loop_sound : forall sigs vs idx t, nonneg vs ->
  vl_loop sig sv idw chain c needed vs sigs idx t = R_ok -> t + gt vs sigs > needed.
Proof.
  induction sigs as [|cs sigs IH]; intros vs idx t Hnn H; [discriminate H|].
  destruct vs as [|v vs]; [discriminate H|]. rewrite vl_loop_cons in H.
  inversion Hnn as [|? ? Hv Hvs]; subst. unfold gt. cbn [good_tally]. fold gt. unfold good_slot.
  destruct (cs_for_block cs) eqn:Ef; cbn [negb andb] in *.
  - rewrite (for_block_sign_bytes chain c cs Ef) in H.
    destruct (sv (v_key v) (sign_msg chain (c_height c) (c_round c) (c_bid c) (cs_ts cs)) (cs_sig cs)) eqn:Es;
      cbn [negb] in H; [|discriminate H].
    unfold idw in H at 1. cbv zeta in H.
    destruct (t + v_power v >? needed) eqn:Et.
    + pose proof (good_tally_nonneg chain (c_height c) (c_round c) (c_bid c) vs sigs Hvs). fold gt in H0. lia.
    + apply IH in H; [|assumption]. unfold idw in H. lia.
  - apply IH in H; [|assumption]. lia.
Qed.

(* every slot ok and enough flagged power => the early-exit loop accepts *)
Lemma vl_loop_complete : forall sigs vs idx t, length vs = length sigs ->
  all_slots_ok chain c vs sigs -> t <= needed -> t + block_tally vs sigs > needed ->
  vl_loop sig sv idw chain c needed vs sigs idx t = R_ok.
Proof.
  induction sigs as [|cs sigs IH]; intros vs idx t Hlen Hok Ht Hb; destruct vs as [|v vs]; try discriminate Hlen.
  - cbn [block_tally] in Hb. lia.
  - injection Hlen as Hlen. unfold all_slots_ok in Hok. cbn [combine] in Hok.
    apply Forall_cons_iff in Hok as [H1 H2]. cbn [fst snd] in H1. cbn [block_tally] in Hb.
    rewrite vl_loop_cons. destruct (cs_for_block cs) eqn:Ef; cbn [negb].
    + destruct H1 as [Ha|[m [Em Es]]].
      * rewrite (absent_not_for_block cs Ha) in Ef. discriminate.
      * rewrite Em, Es. cbn [negb]. unfold idw at 1. cbv zeta.
        destruct (t + v_power v >? needed) eqn:Et; [reflexivity|].
        apply IH; try assumption; unfold idw; lia.
    + apply IH; try assumption; lia.
Qed.

(* ---- VerifyCommitLightTrusting *)

(* member i of the set put a valid for-the-block signature into the commit *)
Definition member_signed (vs : list validator) (i : nat) : Prop :=
  exists v cs, nth_error vs i = Some v /\ In cs (c_sigs c) /\ cs_for_block cs = true /\
               cs_addr cs = v_addr v /\
               sv (v_key v) (sign_msg chain (c_height c) (c_round c) (c_bid c) (cs_ts cs)) (cs_sig cs) = true.

Lemma vt_loop_cons : forall w vs cs sigs idx t seen,
  vt_loop sig sv w chain c needed vs (cs :: sigs) idx t seen =
  if negb (cs_for_block cs) then vt_loop sig sv w chain c needed vs sigs (idx + 1) t seen
  else match get_by_address vs (cs_addr cs) O with
       | None => vt_loop sig sv w chain c needed vs sigs (idx + 1) t seen
       | Some (vi, v) =>
         if existsb (Nat.eqb vi) seen then R_err_double (Z.of_nat vi) idx
         else match vote_sign_bytes chain c cs with
              | None => R_panic
              | Some m =>
                if negb (sv (v_key v) m (cs_sig cs)) then R_err_sig idx
                else let t' := w (t + v_power v) in
                     if t' >? needed then R_ok
                     else vt_loop sig sv w chain c needed vs sigs (idx + 1) t' (vi :: seen)
              end
       end.
Proof. reflexivity. Qed.

Lemma existsb_nat_false : forall x l, existsb (Nat.eqb x) l = false -> ~ In x l.
Proof.
  intros x l H Hin. assert (existsb (Nat.eqb x) l = true); [|congruence].
  apply existsb_exists. exists x. split; [assumption | apply Nat.eqb_refl].
Qed.

Lemma vt_loop_sound : forall vs sigs idx t seen,
  (forall cs, In cs sigs -> In cs (c_sigs c)) ->
  NoDup seen -> Forall (member_signed vs) seen -> t = pw vs seen ->
  vt_loop sig sv idw chain c needed vs sigs idx t seen = R_ok ->
  exists S, NoDup S /\ Forall (member_signed vs) S /\ pw vs S > needed.
Proof.
  intros vs. induction sigs as [|cs sigs IH]; intros idx t seen Hin Hnd Hms Ht H; [discriminate H|].
  rewrite vt_loop_cons in H.
  assert (Hin' : forall x, In x sigs -> In x (c_sigs c)) by (intros x Hx; apply Hin; right; assumption).
  destruct (cs_for_block cs) eqn:Ef; cbn [negb] in H; [|eapply IH; eassumption].
  destruct (get_by_address vs (cs_addr cs) 0) as [[vi v]|] eqn:Eg; [|eapply IH; eassumption].
  destruct (existsb (Nat.eqb vi) seen) eqn:Ee; [discriminate H|].
  rewrite (for_block_sign_bytes chain c cs Ef) in H.
  destruct (sv (v_key v) (sign_msg chain (c_height c) (c_round c) (c_bid c) (cs_ts cs)) (cs_sig cs)) eqn:Es;
    cbn [negb] in H; [|discriminate H].
  apply get_by_address_spec in Eg as [_ [Hnth Haddr]]. rewrite Nat.sub_0_r in Hnth.
  assert (Hnew : member_signed vs vi).
  { exists v, cs. repeat split; try assumption; [apply Hin; left; reflexivity | symmetry; assumption]. }
  assert (Hnd' : NoDup (vi :: seen)) by (constructor; [apply existsb_nat_false; assumption | assumption]).
  assert (Hpw : pw vs (vi :: seen) = t + v_power v).
  { cbn [pw]. unfold pw_at. rewrite Hnth. lia. }
  unfold idw in H at 1. cbv zeta in H.
  destruct (t + v_power v >? needed) eqn:Et.
  - exists (vi :: seen). split; [assumption|]. split; [constructor; assumption | lia].
  - eapply IH; try eassumption; [constructor; assumption | unfold idw; lia].
Qed.

End Loops.

(* ------------------------------------------------------------------ int64 wrap never fires *)

Section NoWrap.
Variable chain : Z.
Variable c : commit sig.
Variable needed : Z.

Lemma vc_loop_nowrap : forall sigs vs idx t,
  nonneg vs -> 0 <= t -> t + sum_power vs <= max_int64 ->
  vc_loop sig sv wrap64 chain c needed vs sigs idx t = vc_loop sig sv idw chain c needed vs sigs idx t.
Proof.
  induction sigs as [|cs sigs IH]; intros vs idx t Hnn Ht Hle; [reflexivity|].
  destruct vs as [|v vs]; [reflexivity|]. rewrite !vc_loop_cons.
  inversion Hnn as [|? ? Hv Hvs]; subst. cbn [sum_power] in Hle.
  pose proof (sum_power_nonneg vs Hvs) as Hs.
  destruct (cs_absent cs); [apply IH; try assumption; lia|].
  destruct (vote_sign_bytes chain c cs) as [m|]; [|reflexivity].
  destruct (negb (sv (v_key v) m (cs_sig cs))); [reflexivity|].
  destruct (cs_for_block cs); [|apply IH; try assumption; lia].
  rewrite wrap64_id by (unfold min_int64; lia). unfold idw. apply IH; try assumption; lia.
Qed.

Lemma vl_loop_nowrap : forall sigs vs idx t,
  nonneg vs -> 0 <= t -> t + sum_power vs <= max_int64 ->
  vl_loop sig sv wrap64 chain c needed vs sigs idx t = vl_loop sig sv idw chain c needed vs sigs idx t.
Proof.
  induction sigs as [|cs sigs IH]; intros vs idx t Hnn Ht Hle; [reflexivity|].
  destruct vs as [|v vs]; [reflexivity|]. rewrite !vl_loop_cons.
  inversion Hnn as [|? ? Hv Hvs]; subst. cbn [sum_power] in Hle.
  pose proof (sum_power_nonneg vs Hvs) as Hs.
  destruct (negb (cs_for_block cs)); [apply IH; try assumption; lia|].
  destruct (vote_sign_bytes chain c cs) as [m|]; [|reflexivity].
  destruct (negb (sv (v_key v) m (cs_sig cs))); [reflexivity|].
  rewrite wrap64_id by (unfold min_int64; lia). unfold idw. cbv zeta.
  destruct (t + v_power v >? needed); [reflexivity|]. apply IH; try assumption; lia.
Qed.

Lemma vt_loop_nowrap : forall vs sigs idx t seen,
  nonneg vs -> sum_power vs <= max_int64 -> NoDup seen -> t = pw vs seen ->
  vt_loop sig sv wrap64 chain c needed vs sigs idx t seen =
  vt_loop sig sv idw chain c needed vs sigs idx t seen.
Proof.
  intros vs. induction sigs as [|cs sigs IH]; intros idx t seen Hnn Hle Hnd Ht; [reflexivity|].
  rewrite !vt_loop_cons.
  destruct (negb (cs_for_block cs)); [apply IH; assumption|].
  destruct (get_by_address vs (cs_addr cs) 0) as [[vi v]|] eqn:Eg; [|apply IH; assumption].
  destruct (existsb (Nat.eqb vi) seen) eqn:Ee; [reflexivity|].
  destruct (vote_sign_bytes chain c cs) as [m|]; [|reflexivity].
  destruct (negb (sv (v_key v) m (cs_sig cs))); [reflexivity|].
  apply get_by_address_spec in Eg as [_ [Hnth _]]. rewrite Nat.sub_0_r in Hnth.
  assert (Hnd' : NoDup (vi :: seen)) by (constructor; [apply existsb_nat_false; assumption | assumption]).
  assert (Hpw : pw vs (vi :: seen) = t + v_power v).
  { cbn [pw]. unfold pw_at. rewrite Hnth. lia. }
  pose proof (pw_le_sum vs (vi :: seen) Hnn Hnd') as Hub.
  pose proof (pw_nonneg vs (vi :: seen) Hnn) as Hlb.
  rewrite wrap64_id by (unfold min_int64; lia). unfold idw. cbv zeta.
  destruct (t + v_power v >? needed); [reflexivity|]. apply IH; try assumption. lia.
Qed.

End NoWrap.

Lemma verify_commit_nowrap : forall vs chain bid h c, wf_valset vs ->
  verify_commit sv vs chain bid h c = verify_commit_w sig sv idw vs chain bid h c.
Proof.
  intros vs chain bid h c Hwf. unfold verify_commit, verify_commit_w.
  destruct (negb (Nat.eqb (length vs) (length (c_sigs c)))); [reflexivity|].
  destruct (negb (h =? c_height c)); [reflexivity|].
  destruct (negb (bid =? c_bid c)); [reflexivity|].
  rewrite (total_voting_power_wf vs Hwf). destruct Hwf as [Hnn Hle].
  pose proof (sum_power_nonneg vs Hnn) as H0. pose proof max_total_small as [M0 M8].
  rewrite wrap64_id by (unfold min_int64; lia). unfold idw at 1.
  apply vc_loop_nowrap; try assumption; lia.
Qed.

Lemma verify_commit_light_nowrap : forall vs chain bid h c, wf_valset vs ->
  verify_commit_light sv vs chain bid h c = verify_commit_light_w sig sv idw vs chain bid h c.
Proof.
  intros vs chain bid h c Hwf. unfold verify_commit_light, verify_commit_light_w.
  destruct (negb (Nat.eqb (length vs) (length (c_sigs c)))); [reflexivity|].
  destruct (negb (h =? c_height c)); [reflexivity|].
  destruct (negb (bid =? c_bid c)); [reflexivity|].
  rewrite (total_voting_power_wf vs Hwf). destruct Hwf as [Hnn Hle].
  pose proof (sum_power_nonneg vs Hnn) as H0. pose proof max_total_small as [M0 M8].
  rewrite wrap64_id by (unfold min_int64; lia). unfold idw at 1.
  apply vl_loop_nowrap; try assumption; lia.
Qed.

(* safeMul on non-negative int64 values: either it reports overflow or the product is exact
   and fits *)
Lemma safe_mul_nonneg : forall a b, 0 <= a <= max_int64 -> 0 <= b <= max_int64 ->
  safe_mul wrap64 a b = safe_mul idw a b /\
  (snd (safe_mul idw a b) = false -> fst (safe_mul idw a b) = a * b /\ a * b <= max_int64).
Proof.
  intros a b Ha Hb. unfold safe_mul.
  destruct ((a =? 0) || (b =? 0)) eqn:E0.
  - split; [reflexivity|]. intros _. cbn [fst]. split; lia.
  - assert (a <> 0 /\ b <> 0) as [Ha0 Hb0] by lia.
    assert (Eb : (b <? 0) = false) by lia. assert (Ea : (a <? 0) = false) by lia.
    rewrite Ea, Eb.
    destruct (a >? Z.quot max_int64 b) eqn:Eq.
    + split; [reflexivity|]. cbn [snd]. discriminate.
    + assert (Hab : a * b <= max_int64).
      { rewrite Z.quot_div_nonneg in Eq by lia.
        pose proof (Z.div_mod max_int64 b ltac:(lia)) as E.
        pose proof (Z.mod_pos_bound max_int64 b ltac:(lia)) as B. nia. }
      split.
      * rewrite wrap64_id by (unfold min_int64; nia). reflexivity.
      * intros _. cbn [fst]. unfold idw. split; [reflexivity | assumption].
Qed.

Lemma verify_commit_light_trusting_nowrap : forall vs chain c num den, wf_valset vs ->
  0 <= num <= max_int64 -> 0 <= den <= max_int64 ->
  verify_commit_light_trusting sv vs chain c num den =
  verify_commit_light_trusting_w sig sv idw vs chain c num den.
Proof.
  intros vs chain c num den Hwf Hn Hd. unfold verify_commit_light_trusting, verify_commit_light_trusting_w.
  destruct (den =? 0) eqn:Ed; [reflexivity|].
  rewrite (total_voting_power_wf vs Hwf). destruct Hwf as [Hnn Hle].
  pose proof (sum_power_nonneg vs Hnn) as H0. pose proof max_total_small as [M0 M8].
  rewrite (wrap64_id num) by (unfold min_int64; lia).
  rewrite (wrap64_id den) by (unfold min_int64; lia). unfold idw at 2 3.
  destruct (safe_mul_nonneg (sum_power vs) num ltac:(lia) Hn) as [Esm Hex].
  rewrite Esm. destruct (safe_mul idw (sum_power vs) num) as [prod ovf]. cbn [fst snd] in Hex.
  destruct ovf; [reflexivity|]. destruct (Hex eq_refl) as [-> Hfit].
  assert (Hq : 0 <= Z.quot (sum_power vs * num) den <= sum_power vs * num)
    by (apply quot_nonneg; [nia | lia]).
  rewrite wrap64_id by (unfold min_int64; lia). unfold idw at 1.
  apply vt_loop_nowrap; try assumption; [lia | constructor | reflexivity].
Qed.

(* ------------------------------------------------------------------ the statements *)

Lemma verify_commit_iff : forall vs chain bid h c, wf_valset vs ->
  (verify_commit sv vs chain bid h c = R_ok <->
   length vs = length (c_sigs c) /\ h = c_height c /\ bid = c_bid c /\
   all_slots_ok chain c vs (c_sigs c) /\
   3 * block_tally vs (c_sigs c) > 2 * sum_power vs).
Proof.
  intros vs chain bid h c Hwf. rewrite (verify_commit_nowrap vs chain bid h c Hwf).
  unfold verify_commit_w. rewrite (total_voting_power_wf vs Hwf). destruct Hwf as [Hnn Hle].
  pose proof (sum_power_nonneg vs Hnn) as H0.
  destruct (Nat.eqb_spec (length vs) (length (c_sigs c))) as [El|El]; cbn [negb];
    [|split; [discriminate | intros [? _]; contradiction]].
  destruct (Z.eqb_spec h (c_height c)) as [Eh|Eh]; cbn [negb];
    [|split; [discriminate | intros [_ [? _]]; contradiction]].
  destruct (Z.eqb_spec bid (c_bid c)) as [Eb|Eb]; cbn [negb];
    [|split; [discriminate | intros [_ [_ [? _]]]; contradiction]].
  unfold idw at 1. rewrite (vc_loop_ok_iff chain c _ (c_sigs c) vs 0 0 El).
  rewrite Z.add_0_l. rewrite (gt_quot_iff (block_tally vs (c_sigs c)) (sum_power vs * 2) 3) by lia.
  split.
  - intros [A B]. repeat split; try assumption. lia.
  - intros [_ [_ [_ [A B]]]]. split; [assumption | lia].
Qed.

(* accepted by the full variant => +2/3 by *verified* for-the-block signatures *)
Lemma verify_commit_sound : forall vs chain bid h c, wf_valset vs ->
  verify_commit sv vs chain bid h c = R_ok ->
  length vs = length (c_sigs c) /\ h = c_height c /\ bid = c_bid c /\
  3 * good_tally chain h (c_round c) bid vs (c_sigs c) > 2 * sum_power vs.
Proof.
  intros vs chain bid h c Hwf H. apply (verify_commit_iff vs chain bid h c Hwf) in H
    as [El [Eh [Eb [A B]]]].
  repeat split; try assumption. subst h bid. rewrite <- (all_ok_block_good chain c vs (c_sigs c) A).
  exact B.
Qed.

Lemma verify_commit_light_sound : forall vs chain bid h c, wf_valset vs ->
  verify_commit_light sv vs chain bid h c = R_ok ->
  length vs = length (c_sigs c) /\ h = c_height c /\ bid = c_bid c /\
  3 * good_tally chain h (c_round c) bid vs (c_sigs c) > 2 * sum_power vs.
Proof.
  intros vs chain bid h c Hwf. rewrite (verify_commit_light_nowrap vs chain bid h c Hwf).
  unfold verify_commit_light_w. rewrite (total_voting_power_wf vs Hwf). destruct Hwf as [Hnn Hle].
  pose proof (sum_power_nonneg vs Hnn) as H0.
  destruct (Nat.eqb_spec (length vs) (length (c_sigs c))) as [El|El]; cbn [negb]; [|discriminate].
  destruct (Z.eqb_spec h (c_height c)) as [Eh|Eh]; cbn [negb]; [|discriminate].
  destruct (Z.eqb_spec bid (c_bid c)) as [Eb|Eb]; cbn [negb]; [|discriminate].
  unfold idw at 1. intro H. apply vl_loop_sound in H; [|assumption].
  rewrite Z.add_0_l in H.
  rewrite (gt_quot_iff _ (sum_power vs * 2) 3) in H by lia.
  repeat split; try assumption. subst h bid. lia.
Qed.

(* the full variant accepting implies the early-exit variant accepting *)
Lemma full_implies_light : forall vs chain bid h c, wf_valset vs ->
  verify_commit sv vs chain bid h c = R_ok -> verify_commit_light sv vs chain bid h c = R_ok.
Proof.
  intros vs chain bid h c Hwf H.
  apply (verify_commit_iff vs chain bid h c Hwf) in H as [El [Eh [Eb [A B]]]].
  rewrite (verify_commit_light_nowrap vs chain bid h c Hwf).
  unfold verify_commit_light_w. rewrite (total_voting_power_wf vs Hwf). destruct Hwf as [Hnn Hle].
  pose proof (sum_power_nonneg vs Hnn) as H0.
  rewrite El, Nat.eqb_refl, Eh, Z.eqb_refl, Eb, Z.eqb_refl. cbn [negb].
  change (idw (sum_power vs * 2)) with (sum_power vs * 2).
  pose proof (quot_nonneg (sum_power vs * 2) 3 ltac:(lia) ltac:(lia)) as Hq.
  apply vl_loop_complete; try assumption; [lia|].
  rewrite Z.add_0_l. apply (gt_quot_iff _ (sum_power vs * 2) 3); lia.
Qed.

(* ... and on commits all of whose signatures are valid the two agree *)
Lemma full_light_agree : forall vs chain bid h c, wf_valset vs ->
  all_slots_ok chain c vs (c_sigs c) ->
  (verify_commit sv vs chain bid h c = R_ok <-> verify_commit_light sv vs chain bid h c = R_ok).
Proof.
  intros vs chain bid h c Hwf Hok. split; [apply full_implies_light; assumption|].
  intro H. apply (verify_commit_light_sound vs chain bid h c Hwf) in H as [El [Eh [Eb B]]].
  apply (verify_commit_iff vs chain bid h c Hwf). repeat split; try assumption.
  subst h bid. rewrite (all_ok_block_good chain c vs (c_sigs c) Hok). exact B.
Qed.

(* accepted by the trusting variant => distinct members of the set, each with a verified
   for-the-block signature in the commit, carry more than num/den of the total *)
Lemma verify_commit_light_trusting_sound : forall vs chain c num den, wf_valset vs ->
  0 <= num <= max_int64 -> 0 <= den <= max_int64 ->
  verify_commit_light_trusting sv vs chain c num den = R_ok ->
  exists S, NoDup S /\ Forall (member_signed chain c vs) S /\ den * pw vs S > num * sum_power vs.
Proof.
  intros vs chain c num den Hwf Hn Hd.
  rewrite (verify_commit_light_trusting_nowrap vs chain c num den Hwf Hn Hd).
  unfold verify_commit_light_trusting_w.
  destruct (Z.eqb_spec den 0) as [Ed|Ed]; [discriminate|].
  rewrite (total_voting_power_wf vs Hwf). destruct Hwf as [Hnn Hle].
  pose proof (sum_power_nonneg vs Hnn) as H0. pose proof max_total_small as [M0 M8].
  unfold idw at 2 3.
  destruct (safe_mul_nonneg (sum_power vs) num ltac:(lia) Hn) as [_ Hex].
  destruct (safe_mul idw (sum_power vs) num) as [prod ovf]. cbn [fst snd] in Hex.
  destruct ovf; [discriminate|]. destruct (Hex eq_refl) as [-> Hfit]. unfold idw at 1.
  intro H. apply vt_loop_sound in H; [| auto | constructor | constructor | reflexivity].
  destruct H as [S [HS [HM HP]]]. exists S. split; [assumption|]. split; [assumption|].
  apply (gt_quot_iff _ (sum_power vs * num) den) in HP; [lia | nia | lia].
Qed.


(* ------------------------------------------------------------------ exact rule of the early-exit variant *)

(* every for-the-block slot of the pairing carries a verified signature *)
Definition flagged_valid (chain : Z) (c : commit sig) (vs : list validator) (sigs : list (commitsig sig)) : Prop :=
  Forall (fun p => cs_for_block (snd p) = true ->
                   sv (v_key (fst p)) (sign_msg chain (c_height c) (c_round c) (c_bid c) (cs_ts (snd p)))
                      (cs_sig (snd p)) = true) (combine vs sigs).

Lemma vl_loop_iff : forall chain c needed sigs vs idx t, nonneg vs -> t <= needed ->
  (vl_loop sig sv idw chain c needed vs sigs idx t = R_ok <->
   exists n, flagged_valid chain c (firstn n vs) (firstn n sigs) /\
             t + block_tally (firstn n vs) (firstn n sigs) > needed).
Proof.
  intros chain c needed. induction sigs as [|cs sigs IH]; intros vs idx t Hnn Ht.
  - split; [discriminate|]. intros [n [_ B]]. rewrite firstn_nil in B.
    destruct (firstn n vs); cbn [block_tally] in B; lia.
  - destruct vs as [|v vs].
    + split; [discriminate|]. intros [n [_ B]]. rewrite firstn_nil in B. cbn [block_tally] in B. lia.
    + inversion Hnn as [|? ? Hv Hvs]; subst. rewrite vl_loop_cons.
      destruct (cs_for_block cs) eqn:Ef; cbn [negb].
      * rewrite (for_block_sign_bytes chain c cs Ef).
        destruct (sv (v_key v) (sign_msg chain (c_height c) (c_round c) (c_bid c) (cs_ts cs)) (cs_sig cs)) eqn:Es;
          cbn [negb].
        -- unfold idw at 1. cbv zeta. destruct (t + v_power v >? needed) eqn:Et.
           ++ split; [intros _|reflexivity]. exists 1%nat. cbn [firstn]. split.
              ** unfold flagged_valid. cbn [combine]. constructor; [|constructor]. intros _. exact Es.
              ** cbn [block_tally]. rewrite Ef. destruct (firstn 0 vs); lia.
           ++ rewrite (IH vs (idx + 1) (idw (t + v_power v)) Hvs) by (unfold idw; lia). unfold idw.
              split.
              ** intros [n [A B]]. exists (S n). cbn [firstn]. split.
                 --- unfold flagged_valid. cbn [combine]. constructor; [intros _; exact Es | exact A].
                 --- cbn [block_tally]. rewrite Ef. lia.
              ** intros [n [A B]]. destruct n as [|n]; [cbn [firstn block_tally] in B; lia|].
                 exists n. cbn [firstn] in A, B. unfold flagged_valid in A. cbn [combine] in A.
                 apply Forall_cons_iff in A as [_ A]. cbn [block_tally] in B. rewrite Ef in B.
                 split; [exact A | lia].
        -- split; [discriminate|]. intros [n [A B]].
           destruct n as [|n]; [cbn [firstn block_tally] in B; lia|].
           cbn [firstn] in A. unfold flagged_valid in A. cbn [combine] in A.
           apply Forall_cons_iff in A as [A _]. cbn [fst snd] in A. rewrite (A Ef) in Es. discriminate.
      * rewrite (IH vs (idx + 1) t Hvs Ht). split.
        -- intros [n [A B]]. exists (S n). cbn [firstn]. split.
           ++ unfold flagged_valid. cbn [combine]. constructor; [cbn [fst snd]; congruence | exact A].
           ++ cbn [block_tally]. rewrite Ef. lia.
        -- intros [n [A B]]. destruct n as [|n]; [cbn [firstn block_tally] in B; lia|].
           exists n. cbn [firstn] in A, B. unfold flagged_valid in A. cbn [combine] in A.
           apply Forall_cons_iff in A as [_ A]. cbn [block_tally] in B. rewrite Ef in B.
           split; [exact A | lia].
Qed.

Lemma verify_commit_light_iff : forall vs chain bid h c, wf_valset vs ->
  (verify_commit_light sv vs chain bid h c = R_ok <->
   length vs = length (c_sigs c) /\ h = c_height c /\ bid = c_bid c /\
   exists n, flagged_valid chain c (firstn n vs) (firstn n (c_sigs c)) /\
             3 * block_tally (firstn n vs) (firstn n (c_sigs c)) > 2 * sum_power vs).
Proof.
  intros vs chain bid h c Hwf. rewrite (verify_commit_light_nowrap vs chain bid h c Hwf).
  unfold verify_commit_light_w. rewrite (total_voting_power_wf vs Hwf). destruct Hwf as [Hnn Hle].
  pose proof (sum_power_nonneg vs Hnn) as H0.
  destruct (Nat.eqb_spec (length vs) (length (c_sigs c))) as [El|El]; cbn [negb];
    [|split; [discriminate | intros [? _]; contradiction]].
  destruct (Z.eqb_spec h (c_height c)) as [Eh|Eh]; cbn [negb];
    [|split; [discriminate | intros [_ [? _]]; contradiction]].
  destruct (Z.eqb_spec bid (c_bid c)) as [Eb|Eb]; cbn [negb];
    [|split; [discriminate | intros [_ [_ [? _]]]; contradiction]].
  change (idw (sum_power vs * 2)) with (sum_power vs * 2).
  pose proof (quot_nonneg (sum_power vs * 2) 3 ltac:(lia) ltac:(lia)) as Hq.
  rewrite (vl_loop_iff chain c _ (c_sigs c) vs 0 0 Hnn) by lia.
  split.
  - intros [n [A B]]. repeat split; try assumption. exists n. split; [assumption|].
    rewrite Z.add_0_l in B. apply (gt_quot_iff _ (sum_power vs * 2) 3) in B; lia.
  - intros [_ [_ [_ [n [A B]]]]]. exists n. split; [assumption|].
    rewrite Z.add_0_l. apply (gt_quot_iff _ (sum_power vs * 2) 3); lia.
Qed.

(* ------------------------------------------------------------------ what is never looked at *)

(* the same commit with other signature slots *)
Definition with_sigs (c : commit sig) (s : list (commitsig sig)) : commit sig :=
  {| c_height := c_height c; c_round := c_round c; c_bid := c_bid c; c_sigs := s |}.

Lemma vote_sign_bytes_with_sigs : forall chain c s cs,
  vote_sign_bytes chain (with_sigs c s) cs = vote_sign_bytes chain c cs.
Proof. reflexivity. Qed.

(* slots not flagged for the block (absent, nil) may hold anything: the early-exit variant
   neither verifies nor counts them *)
Definition same_or_unflagged (a b : commitsig sig) : Prop :=
  a = b \/ (cs_for_block a = false /\ cs_for_block b = false).

Lemma vl_loop_unflagged : forall w chain c needed s s', Forall2 same_or_unflagged s s' ->
  forall vs idx t,
  vl_loop sig sv w chain (with_sigs c s) needed vs s idx t =
  vl_loop sig sv w chain (with_sigs c s') needed vs s' idx t.
Proof.
  intros w chain c needed s s' H.
  assert (G : forall c1 c2, c_height c1 = c_height c2 -> c_round c1 = c_round c2 -> c_bid c1 = c_bid c2 ->
          forall vs idx t, vl_loop sig sv w chain c1 needed vs s idx t = vl_loop sig sv w chain c2 needed vs s' idx t).
  { intros c1 c2 E1 E2 E3. induction H as [|a b s s' Hab Hs IH]; intros vs idx t; [reflexivity|].
    destruct vs as [|v vs]; [reflexivity|]. rewrite !vl_loop_cons.
    assert (Ev : forall x, vote_sign_bytes chain c1 x = vote_sign_bytes chain c2 x)
      by (intro x; unfold vote_sign_bytes, sign_msg; rewrite E1, E2, E3; reflexivity).
    destruct Hab as [<-|[Ha Hb]].
    - rewrite Ev. destruct (negb (cs_for_block a)); [apply IH|].
      destruct (vote_sign_bytes chain c2 a); [|reflexivity].
      destruct (negb (sv (v_key v) s0 (cs_sig a))); [reflexivity|]. cbv zeta.
      destruct (w (t + v_power v) >? needed); [reflexivity | apply IH].
    - rewrite Ha, Hb. cbn [negb]. apply IH. }
  apply G; reflexivity.
Qed.

(* the trusting variant additionally skips slots whose address is not a member's *)
Definition skipped_by_trusting (vs : list validator) (a : commitsig sig) : Prop :=
  cs_for_block a = false \/ get_by_address vs (cs_addr a) 0 = None.
Definition same_or_skipped (vs : list validator) (a b : commitsig sig) : Prop :=
  a = b \/ (skipped_by_trusting vs a /\ skipped_by_trusting vs b).

Lemma vt_loop_skipped : forall w chain c needed vs s s', Forall2 (same_or_skipped vs) s s' ->
  forall idx t seen,
  vt_loop sig sv w chain (with_sigs c s) needed vs s idx t seen =
  vt_loop sig sv w chain (with_sigs c s') needed vs s' idx t seen.
Proof.
  intros w chain c needed vs s s' H.
  assert (G : forall c1 c2, c_height c1 = c_height c2 -> c_round c1 = c_round c2 -> c_bid c1 = c_bid c2 ->
          forall idx t seen, vt_loop sig sv w chain c1 needed vs s idx t seen =
                             vt_loop sig sv w chain c2 needed vs s' idx t seen).
  { intros c1 c2 E1 E2 E3. induction H as [|a b s s' Hab Hs IH]; intros idx t seen; [reflexivity|].
    rewrite !vt_loop_cons.
    assert (Ev : forall x, vote_sign_bytes chain c1 x = vote_sign_bytes chain c2 x)
      by (intro x; unfold vote_sign_bytes, sign_msg; rewrite E1, E2, E3; reflexivity).
    destruct Hab as [<-|[Ha Hb]].
    - rewrite Ev. destruct (negb (cs_for_block a)); [apply IH|].
      destruct (get_by_address vs (cs_addr a) 0) as [[vi v]|]; [|apply IH].
      destruct (existsb (Nat.eqb vi) seen); [reflexivity|].
      destruct (vote_sign_bytes chain c2 a); [|reflexivity].
      destruct (negb (sv (v_key v) s0 (cs_sig a))); [reflexivity|]. cbv zeta.
      destruct (w (t + v_power v) >? needed); [reflexivity | apply IH].
    - destruct Ha as [Ha|Ha], Hb as [Hb|Hb]; rewrite ?Ha, ?Hb; cbn [negb];
        repeat match goal with
               | |- context [negb (cs_for_block ?x)] => destruct (negb (cs_for_block x))
               end; apply IH. }
  apply G; reflexivity.
Qed.

End Main.

(* ------------------------------------------------------------------ symbolic instance *)

Lemma canon_bid_inj : forall a b, a <> 0 -> canon_bid a = canon_bid b -> a = b.
Proof.
  intros a b Ha. unfold canon_bid. destruct (Z.eqb_spec a 0); [contradiction|].
  destruct (Z.eqb_spec b 0); [discriminate|]. congruence.
Qed.

(* the record of signed fields determines chain, height, round, block (if not nil), time *)
Lemma sign_msg_inj : forall ch h r b ts ch' h' r' b' ts', b <> 0 ->
  sign_msg ch h r b ts = sign_msg ch' h' r' b' ts' ->
  ch = ch' /\ h = h' /\ r = r' /\ b = b' /\ ts = ts'.
Proof.
  intros ch h r b ts ch' h' r' b' ts' Hb E. unfold sign_msg in E.
  injection E as E1 E2 E3 E4 E5. apply (canon_bid_inj b b' Hb) in E4. repeat split; assumption.
Qed.

(* with symbolic signatures: a slot counts only if its signature was made by the validator's key
   over exactly this chain, height, round, block and the slot's timestamp *)
Lemma ideal_good_slot_binds : forall chain h r bid v (cs : commitsig isig),
  good_slot isig ideal_verify chain h r bid v cs = true ->
  cs_flag cs = block_id_flag_commit /\
  cs_sig cs = Signed (v_key v) (sign_msg chain h r bid (cs_ts cs)).
Proof.
  intros chain h r bid v cs H. unfold good_slot in H. apply andb_true_iff in H as [H1 H2].
  split; [unfold cs_for_block in H1; lia | apply ideal_verify_binds; assumption].
Qed.

Lemma Signed_inj : forall k m k' m', Signed k m = Signed k' m' -> k = k' /\ m = m'.
Proof. intros k m k' m' E. injection E as -> ->. split; reflexivity. Qed.

Lemma ideal_other_message_not_counted : forall chain h r bid v (cs : commitsig isig) k ch' h' r' bid' ts',
  bid <> 0 -> cs_sig cs = Signed k (sign_msg ch' h' r' bid' ts') ->
  (k <> v_key v \/ ch' <> chain \/ h' <> h \/ r' <> r \/ bid' <> bid \/ ts' <> cs_ts cs) ->
  good_slot isig ideal_verify chain h r bid v cs = false.
Proof.
  intros chain h r bid v cs k ch' h' r' bid' ts' Hb Hs Hne.
  destruct (good_slot isig ideal_verify chain h r bid v cs) eqn:E; [|reflexivity]. exfalso.
  apply ideal_good_slot_binds in E as [_ E]. rewrite Hs in E. apply Signed_inj in E as [Ek Em].
  symmetry in Em. apply sign_msg_inj in Em; [|assumption].
  destruct Em as [? [? [? [? ?]]]]. intuition congruence.
Qed.

(* ------------------------------------------------------------------ commit-level forms *)

Lemma forall2_same_length : forall (A B : Type) (R : A -> B -> Prop) l l',
  Forall2 R l l' -> length l = length l'.
Proof. induction 1; cbn [length]; congruence. Qed.

Lemma verify_commit_light_ignores_unflagged : forall sig sv vs chain bid h (c : commit sig) s',
  Forall2 (same_or_unflagged sig) (c_sigs c) s' ->
  verify_commit_light sv vs chain bid h (with_sigs sig c s') = verify_commit_light sv vs chain bid h c.
Proof.
  intros sig sv vs chain bid h c s' H. destruct c as [h0 r0 b0 s0]. cbn [c_sigs] in H.
  unfold verify_commit_light, verify_commit_light_w, with_sigs. cbn [c_sigs c_height c_bid c_round].
  rewrite <- (forall2_same_length _ _ _ _ _ H).
  destruct (negb (Nat.eqb (length vs) (length s0))); [reflexivity|].
  destruct (negb (h =? h0)); [reflexivity|]. destruct (negb (bid =? b0)); [reflexivity|].
  destruct (total_voting_power vs) as [total|]; [|reflexivity].
  symmetry.
  exact (vl_loop_unflagged sig sv wrap64 chain (Build_commit sig h0 r0 b0 s0) _ s0 s' H vs 0 0).
Qed.

Lemma verify_commit_light_trusting_ignores_skipped : forall sig sv vs chain (c : commit sig) num den s',
  Forall2 (same_or_skipped sig vs) (c_sigs c) s' ->
  verify_commit_light_trusting sv vs chain (with_sigs sig c s') num den =
  verify_commit_light_trusting sv vs chain c num den.
Proof.
  intros sig sv vs chain c num den s' H. destruct c as [h0 r0 b0 s0]. cbn [c_sigs] in H.
  unfold verify_commit_light_trusting, verify_commit_light_trusting_w, with_sigs.
  cbn [c_sigs c_height c_bid c_round].
  destruct (den =? 0); [reflexivity|].
  destruct (total_voting_power vs) as [total|]; [|reflexivity].
  destruct (safe_mul wrap64 total (wrap64 num)) as [prod ovf]. destruct ovf; [reflexivity|].
  symmetry.
  exact (vt_loop_skipped sig sv wrap64 chain (Build_commit sig h0 r0 b0 s0) _ vs s0 s' H 0 0 []).
Qed.

(* ------------------------------------------------------------------ no panic *)

Section NoPanic.
Variable sig : Type.
Variable sv : key -> signmsg -> sig -> bool.

Lemma known_flag_sign_bytes : forall chain (c : commit sig) cs,
  cs_flag_known cs = true -> vote_sign_bytes chain c cs <> None.
Proof.
  intros chain c cs H. unfold vote_sign_bytes, cs_block_id. unfold cs_flag_known in H.
  destruct (cs_flag cs =? block_id_flag_absent); [discriminate|].
  destruct (cs_flag cs =? block_id_flag_commit); [discriminate|].
  destruct (cs_flag cs =? block_id_flag_nil); [discriminate|]. discriminate H.
Qed.

Lemma vc_loop_no_panic : forall w chain (c : commit sig) needed sigs vs idx t,
  length vs = length sigs -> forallb cs_flag_known sigs = true ->
  vc_loop sig sv w chain c needed vs sigs idx t <> R_panic.
Proof.
  intros w chain c needed. induction sigs as [|cs sigs IH]; intros vs idx t Hlen Hk;
    destruct vs as [|v vs]; try discriminate Hlen.
  - cbn [vc_loop]. destruct (t <=? needed); discriminate.
  - rewrite vc_loop_cons. injection Hlen as Hlen. cbn [forallb] in Hk.
    apply andb_true_iff in Hk as [Hk1 Hk2].
    destruct (cs_absent cs); [apply IH; assumption|].
    pose proof (known_flag_sign_bytes chain c cs Hk1) as Hm.
    destruct (vote_sign_bytes chain c cs) as [m|]; [|contradiction].
    destruct (negb (sv (v_key v) m (cs_sig cs))); [discriminate | apply IH; assumption].
Qed.

Lemma vl_loop_no_panic : forall w chain (c : commit sig) needed sigs vs idx t,
  length vs = length sigs -> vl_loop sig sv w chain c needed vs sigs idx t <> R_panic.
Proof.
  intros w chain c needed. induction sigs as [|cs sigs IH]; intros vs idx t Hlen;
    destruct vs as [|v vs]; try discriminate Hlen.
  - discriminate.
  - rewrite vl_loop_cons. injection Hlen as Hlen.
    destruct (cs_for_block cs) eqn:Ef; cbn [negb]; [|apply IH; assumption].
    rewrite (for_block_sign_bytes chain c cs Ef).
    destruct (negb (sv (v_key v) _ (cs_sig cs))); [discriminate|]. cbv zeta.
    destruct (w (t + v_power v) >? needed); [discriminate | apply IH; assumption].
Qed.

Lemma vt_loop_no_panic : forall w chain (c : commit sig) needed vs sigs idx t seen,
  vt_loop sig sv w chain c needed vs sigs idx t seen <> R_panic.
Proof.
  intros w chain c needed vs. induction sigs as [|cs sigs IH]; intros idx t seen; [discriminate|].
  rewrite vt_loop_cons. destruct (cs_for_block cs) eqn:Ef; cbn [negb]; [|apply IH].
  destruct (get_by_address vs (cs_addr cs) 0) as [[vi v]|]; [|apply IH].
  destruct (existsb (Nat.eqb vi) seen); [discriminate|].
  rewrite (for_block_sign_bytes chain c cs Ef).
  destruct (negb (sv (v_key v) _ (cs_sig cs))); [discriminate|]. cbv zeta.
  destruct (w (t + v_power v) >? needed); [discriminate | apply IH].
Qed.

(* On a well-formed set: the early-exit and trusting variants never panic, whatever the commit;
   the full variant does not panic when every slot's flag is one of the three defined values
   (CommitSig.ValidateBasic, run by Commit.ValidateBasic / CommitFromProto). *)
Lemma no_panic : forall vs chain bid h (c : commit sig) num den, wf_valset vs ->
  verify_commit_light sv vs chain bid h c <> R_panic /\
  verify_commit_light_trusting sv vs chain c num den <> R_panic /\
  (forallb cs_flag_known (c_sigs c) = true -> verify_commit sv vs chain bid h c <> R_panic).
Proof.
  intros vs chain bid h c num den Hwf. split; [|split].
  - unfold verify_commit_light, verify_commit_light_w.
    destruct (Nat.eqb_spec (length vs) (length (c_sigs c))); cbn [negb]; [|discriminate].
    destruct (negb (h =? c_height c)); [discriminate|].
    destruct (negb (bid =? c_bid c)); [discriminate|].
    rewrite (total_voting_power_wf vs Hwf). apply vl_loop_no_panic; assumption.
  - unfold verify_commit_light_trusting, verify_commit_light_trusting_w.
    destruct (den =? 0); [discriminate|]. rewrite (total_voting_power_wf vs Hwf).
    destruct (safe_mul wrap64 (sum_power vs) (wrap64 num)) as [p o]. destruct o; [discriminate|].
    apply vt_loop_no_panic.
  - intro Hk. unfold verify_commit, verify_commit_w.
    destruct (Nat.eqb_spec (length vs) (length (c_sigs c))); cbn [negb]; [|discriminate].
    destruct (negb (h =? c_height c)); [discriminate|].
    destruct (negb (bid =? c_bid c)); [discriminate|].
    rewrite (total_voting_power_wf vs Hwf). apply vc_loop_no_panic; assumption.
Qed.

End NoPanic.

(* ------------------------------------------------------------------ distinct members, distinct addresses *)

Lemma nth_error_nth_map : forall (vs : list validator) i v,
  nth_error vs i = Some v -> nth i (map v_addr vs) 0 = v_addr v /\ (i < length (map v_addr vs))%nat.
Proof.
  induction vs as [|x r IH]; intros [|i] v H; cbn in *; try discriminate.
  - injection H as ->. split; [reflexivity | lia].
  - apply IH in H as [H1 H2]. split; [assumption | lia].
Qed.

(* in a set without duplicate addresses, distinct member indices are distinct addresses: the
   members found by C07_trusting_sound are different validators also in this sense *)
Lemma members_distinct_addresses : forall (vs : list validator) (S : list nat),
  NoDup (map v_addr vs) -> NoDup S -> (forall i, In i S -> nth_error vs i <> None) ->
  NoDup (map (fun i => nth i (map v_addr vs) 0) S).
Proof.
  intros vs S Hvs HS. induction HS as [|a S' Ha HS' IH]; intros Hin; cbn [map]; [constructor|].
  constructor.
  - intro Hc. apply in_map_iff in Hc as [j [Ej Hj]].
    assert (Ha' : nth_error vs a <> None) by (apply Hin; left; reflexivity).
    assert (Hj' : nth_error vs j <> None) by (apply Hin; right; assumption).
    apply nth_error_Some in Ha', Hj'.
    assert (a = j); [|subst; contradiction].
    symmetry. apply (proj1 (NoDup_nth (map v_addr vs) 0) Hvs); rewrite ?map_length; assumption.
  - apply IH. intros i Hi. apply Hin. right. assumption.
Qed.

(* ------------------------------------------------------------------ canonical vote: field widths
   (Canonical.v): height and round travel as sfixed64; on int64 values the wire record determines
   the abstract record [signmsg], so the oracle "made by that key over that record" is the same
   whether it compares abstract records or wire bytes. *)
From TM Require Import C07.Canonical.

Lemma le_bytes_mod : forall n a b,
  le_bytes n a = le_bytes n b -> a mod 256 ^ Z.of_nat n = b mod 256 ^ Z.of_nat n.
Proof.
  induction n as [|n IH]; intros a b E.
  - change (256 ^ Z.of_nat 0) with 1. now rewrite !Z.mod_1_r.
  - cbn [le_bytes] in E. injection E as E0 E1. apply IH in E1.
    rewrite Nat2Z.inj_succ, Z.pow_succ_r by lia.
    assert (0 < 256 ^ Z.of_nat n) by (apply Z.pow_pos_nonneg; lia).
    rewrite !Z.rem_mul_r by lia. now rewrite E0, E1.
Qed.

Lemma mod_eq_close : forall m a b, 0 < m -> a mod m = b mod m -> - m < a - b < m -> a = b.
Proof.
  intros m a b Hm E Hr.
  pose proof (Z.div_mod a m ltac:(lia)) as Ha. pose proof (Z.div_mod b m ltac:(lia)) as Hb.
  assert (a - b = m * (a / m - b / m)) as D by lia.
  assert (a / m - b / m = 0) by nia. lia.
Qed.

Lemma sfixed64_inj : forall a b, int64_range a -> int64_range b -> sfixed64 a = sfixed64 b -> a = b.
Proof.
  unfold sfixed64, int64_range, min_int64, max_int64. intros a b Ha Hb E.
  apply le_bytes_mod in E. change (256 ^ Z.of_nat 8) with 18446744073709551616 in E.
  rewrite !Z.mod_mod in E by lia.
  apply (mod_eq_close 18446744073709551616); lia.
Qed.

Lemma canonical_record_inj : forall a b,
  signmsg_in_range a -> signmsg_in_range b -> canonical_record a = canonical_record b -> a = b.
Proof.
  intros [c1 t1 h1 r1 b1 s1] [c2 t2 h2 r2 b2 s2] [Ha1 Ha2] [Hb1 Hb2] E.
  pose proof (f_equal cr_chain E) as Ec. pose proof (f_equal cr_type E) as Et.
  pose proof (f_equal cr_height E) as Eh. pose proof (f_equal cr_round E) as Er.
  pose proof (f_equal cr_bid E) as Eb. pose proof (f_equal cr_ts E) as Es.
  cbv [canonical_record cr_chain cr_type cr_height cr_round cr_bid cr_ts
       sm_chain sm_type sm_height sm_round sm_bid sm_ts] in *.
  apply sfixed64_inj in Eh; [|assumption..]. apply sfixed64_inj in Er; [|assumption..].
  congruence.
Qed.

Lemma zlist_eqb_eq : forall a b, zlist_eqb a b = true <-> a = b.
Proof.
  induction a as [|x a IH]; intros [|y b]; cbn [zlist_eqb]; split; intro E;
    try reflexivity; try discriminate.
  - apply andb_true_iff in E as [E1 E2]. apply Z.eqb_eq in E1. apply IH in E2. congruence.
  - injection E as -> ->. rewrite Z.eqb_refl. cbn. now apply IH.
Qed.

Lemma opt_z_eqb_refl : forall a, opt_z_eqb a a = true.
Proof. intros [x|]; cbn; [apply Z.eqb_refl | reflexivity]. Qed.

Lemma canon_record_eqb_eq : forall a b, canon_record_eqb a b = true <-> a = b.
Proof.
  intros [c1 t1 h1 r1 b1 s1] [c2 t2 h2 r2 b2 s2]. unfold canon_record_eqb.
  cbv [cr_chain cr_type cr_height cr_round cr_bid cr_ts].
  rewrite !andb_true_iff, !Z.eqb_eq, !zlist_eqb_eq. split.
  - intros [[[[[? ?] ?] ?] E] ?]. apply opt_z_eqb_eq in E. congruence.
  - intro E. injection E as -> -> -> -> -> ->. repeat split; apply opt_z_eqb_refl.
Qed.

Lemma signmsg_eqb_refl : forall a, signmsg_eqb a a = true.
Proof.
  intros [c t h r b s]. unfold signmsg_eqb; cbn.
  now rewrite !Z.eqb_refl, opt_z_eqb_refl.
Qed.

Lemma wire_oracle_is_ideal : forall pk m s,
  signmsg_in_range m -> (forall k m', s = Signed k m' -> signmsg_in_range m') ->
  wire_verify pk m s = ideal_verify pk m s.
Proof.
  intros pk m [k m'|] Hm Hs; [|reflexivity]. specialize (Hs k m' eq_refl).
  unfold wire_verify, ideal_verify. f_equal.
  destruct (canon_record_eqb (canonical_record m') (canonical_record m)) eqn:E.
  - apply canon_record_eqb_eq in E. apply canonical_record_inj in E; [|assumption..].
    subst. symmetry. apply signmsg_eqb_refl.
  - destruct (signmsg_eqb m' m) eqn:F; [|reflexivity].
    apply signmsg_eqb_eq in F.
    subst. assert (canon_record_eqb (canonical_record m) (canonical_record m) = true)
      by (now apply canon_record_eqb_eq). congruence.
Qed.
