(* C07 — lemmas and proofs (see Props.v for the property statements).
   Stable names meant for reuse by other properties:
     total_voting_power_wf, verify_commit_iff, verify_commit_sound, verify_commit_light_sound,
     verify_commit_light_trusting_sound, full_implies_light, full_light_agree, no_overflow_*,
     good_tally, block_tally, slot_ok, pw, ideal_verify_binds. *)
From Coq Require Import List ZArith NArith Bool Lia ZifyBool.
From TM Require Import Generated.Consts C07.Model.
Import ListNotations.
Open Scope Z_scope.

(* ------------------------------------------------------------------ symbolic signatures *)

Lemma opt_z_eqb_eq : forall a b, opt_z_eqb a b = true -> a = b.
Proof.
  intros [x|] [y|]; cbn; intro E; try discriminate; try reflexivity.
  apply Z.eqb_eq in E. congruence.
Qed.

Lemma signmsg_eqb_eq : forall a b, signmsg_eqb a b = true -> a = b.
Proof.
  intros [c1 t1 h1 r1 b1 s1] [c2 t2 h2 r2 b2 s2]. unfold signmsg_eqb; cbn.
  rewrite !andb_true_iff, !Z.eqb_eq. intros [[[[[? ?] ?] ?] E] ?].
  apply opt_z_eqb_eq in E. congruence.
Qed.

(* a symbolic signature verifies only under the key that made it and only for the message it
   was made over *)
Lemma ideal_verify_binds : forall pk m s, ideal_verify pk m s = true -> s = Signed pk m.
Proof.
  intros pk m [k m'|]; cbn; intro E; [|discriminate].
  apply andb_true_iff in E as [E1 E2]. apply Z.eqb_eq in E1. apply signmsg_eqb_eq in E2. congruence.
Qed.

(* ------------------------------------------------------------------ arithmetic *)

Lemma max_total_small : 0 <= max_total_voting_power /\ 8 * max_total_voting_power <= max_int64.
Proof. unfold max_total_voting_power, max_int64. lia. Qed.

Lemma wrap64_id : forall z, min_int64 <= z <= max_int64 -> wrap64 z = z.
Proof.
  intros z Hz. unfold wrap64, min_int64, max_int64 in *.
  rewrite Z.mod_small by lia. lia.
Qed.

Lemma safe_add_clip_exact : forall a b,
  0 <= a -> 0 <= b -> a + b <= max_int64 -> safe_add_clip a b = a + b.
Proof.
  intros a b Ha Hb Hab. unfold safe_add_clip.
  assert (E1 : (b >? 0) && (a >? max_int64 - b) = false) by lia.
  assert (E2 : (b <? 0) && (a <? min_int64 - b) = false) by lia.
  rewrite E1, E2. reflexivity.
Qed.

(* strict threshold against a truncated quotient = cross-multiplied comparison *)
Lemma gt_quot_iff : forall t x d, 0 <= x -> 0 < d -> (t > Z.quot x d <-> d * t > x).
Proof.
  intros t x d Hx Hd. rewrite Z.quot_div_nonneg by lia.
  pose proof (Z.div_mod x d ltac:(lia)) as E. pose proof (Z.mod_pos_bound x d Hd) as B.
  split; intro H; nia.
Qed.

Lemma quot_nonneg : forall x d, 0 <= x -> 0 < d -> 0 <= Z.quot x d <= x.
Proof.
  intros x d Hx Hd. rewrite Z.quot_div_nonneg by lia. split.
  - apply Z.div_pos; lia.
  - pose proof (Z.div_mod x d ltac:(lia)) as E. pose proof (Z.mod_pos_bound x d Hd) as B. nia.
Qed.

(* ------------------------------------------------------------------ total voting power *)

Lemma sum_power_nonneg : forall vs, Forall (fun v => 0 <= v_power v) vs -> 0 <= sum_power vs.
Proof. induction 1; cbn; lia. Qed.

Lemma tvp_loop_exact : forall vs s,
  Forall (fun v => 0 <= v_power v) vs -> 0 <= s -> s + sum_power vs <= max_total_voting_power ->
  tvp_loop vs s = Some (s + sum_power vs).
Proof.
  induction vs as [|v r IH]; intros s Hnn Hs Hle; cbn in *.
  - f_equal. lia.
  - inversion Hnn as [|? ? Hv Hr]; subst.
    pose proof (sum_power_nonneg r Hr) as Hr0. pose proof max_total_small as [M0 M8].
    rewrite safe_add_clip_exact by lia.
    destruct (s + v_power v >? max_total_voting_power) eqn:E; [lia|].
    rewrite IH by (try assumption; lia). f_equal. lia.
Qed.

Lemma total_voting_power_wf : forall vs, wf_valset vs -> total_voting_power vs = Some (sum_power vs).
Proof.
  intros vs [Hnn Hle]. unfold total_voting_power. rewrite tvp_loop_exact by (try assumption; lia).
  reflexivity.
Qed.

Lemma wf_valsetb_wf : forall vs, wf_valsetb vs = true -> wf_valset vs.
Proof.
  intros vs H. unfold wf_valsetb in H. apply andb_true_iff in H as [H1 H2]. split.
  - rewrite forallb_forall in H1. apply Forall_forall. intros v Hv. specialize (H1 v Hv). lia.
  - lia.
Qed.

(* ------------------------------------------------------------------ flags *)

Section Flags.
Context {sig : Type}.

Lemma absent_not_for_block : forall cs : commitsig sig, cs_absent cs = true -> cs_for_block cs = false.
Proof.
  intros cs. unfold cs_absent, cs_for_block, block_id_flag_absent, block_id_flag_commit. lia.
Qed.

Lemma for_block_not_absent : forall cs : commitsig sig, cs_for_block cs = true -> cs_absent cs = false.
Proof.
  intros cs. unfold cs_absent, cs_for_block, block_id_flag_absent, block_id_flag_commit. lia.
Qed.

Lemma for_block_sign_bytes : forall chain (c : commit sig) cs,
  cs_for_block cs = true ->
  vote_sign_bytes chain c cs = Some (sign_msg chain (c_height c) (c_round c) (c_bid c) (cs_ts cs)).
Proof.
  intros chain c cs H. unfold vote_sign_bytes, cs_block_id.
  pose proof (for_block_not_absent cs H) as Ha. unfold cs_absent in Ha. unfold cs_for_block in H.
  rewrite Ha, H. reflexivity.
Qed.

End Flags.
