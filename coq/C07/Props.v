(* C07 — property statements (placeholder while the pipeline is brought up). *)
From Coq Require Import List ZArith NArith Bool.
From TM Require Import Generated.Consts C07.Model C07.Proofs.
Import ListNotations.
Open Scope Z_scope.

Theorem C07_ideal_signature_binds :
  forall pk m s, ideal_verify pk m s = true -> s = Signed pk m.
Proof. exact ideal_verify_binds. Qed.
Print Assumptions C07_ideal_signature_binds.
