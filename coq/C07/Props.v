(* C07 — A commit is accepted only with enough distinct valid signatures for that block.
   Only the property statements; each is closed by [exact] of a lemma of Proofs.v and followed
   by Print Assumptions.

   Reading guide.  [sv : key -> signmsg -> sig -> bool] is an arbitrary signature check
   (PubKey.VerifySignature); [sign_msg chain h r bid ts] is the canonical precommit for block
   [bid] at (chain, h, r) with timestamp ts.  [verify_commit], [verify_commit_light],
   [verify_commit_light_trusting] are the transcriptions of the three Go entry points with
   int64 wrap-around.  A validator set is well-formed ([wf_valset]) when no power is negative
   and the powers sum to at most MaxTotalVotingPower — what ValidatorSet.ValidateBasic /
   NewValidatorSet / updateTotalVotingPower enforce.
     good_tally sv chain h r bid vs sigs = sum of the powers of the validators i whose slot i
       is flagged for the block and whose signature verifies, under validator i's key, for
       exactly (chain, precommit, h, r, bid, slot timestamp).  Each validator at most once
       (the pairing is positional).
     pw vs S = sum of the powers of the validators with index in S. *)
From Coq Require Import List ZArith NArith Bool.
From TM Require Import Generated.Consts C07.Model C07.Canonical C07.Proofs.
Import ListNotations.
Open Scope Z_scope.

(* ---- VerifyCommit: exact acceptance rule ------------------------------------------------ *)

(* Accepted iff one slot per validator, height and block id are the caller's, every non-absent
   slot has a known flag and a valid signature for the vote it stands for, and the slots flagged
   for the block carry strictly more than 2/3 of the total (unbounded arithmetic). *)
Theorem C07_verify_commit_iff :
  forall (sig : Type) (sv : key -> signmsg -> sig -> bool)
         (vs : list validator) (chain : Z) (bid : blockid) (h : Z) (c : commit sig),
    wf_valset vs ->
    (verify_commit sv vs chain bid h c = R_ok <->
     length vs = length (c_sigs c) /\ h = c_height c /\ bid = c_bid c /\
     all_slots_ok sig sv chain c vs (c_sigs c) /\
     3 * block_tally sig vs (c_sigs c) > 2 * sum_power vs).
Proof. exact verify_commit_iff. Qed.
Print Assumptions C07_verify_commit_iff.

(* Accepted only if signatures that verify for exactly (chain, h, commit round, bid), each from
   the validator at its own position and flagged for the block, exceed 2/3 of the total. *)
Theorem C07_verify_commit_sound :
  forall (sig : Type) (sv : key -> signmsg -> sig -> bool)
         (vs : list validator) (chain : Z) (bid : blockid) (h : Z) (c : commit sig),
    wf_valset vs ->
    verify_commit sv vs chain bid h c = R_ok ->
    length vs = length (c_sigs c) /\ h = c_height c /\ bid = c_bid c /\
    3 * good_tally sig sv chain h (c_round c) bid vs (c_sigs c) > 2 * sum_power vs.
Proof. exact verify_commit_sound. Qed.
Print Assumptions C07_verify_commit_sound.

(* ---- VerifyCommitLight (early exit) ------------------------------------------------------ *)

Theorem C07_verify_commit_light_sound :
  forall (sig : Type) (sv : key -> signmsg -> sig -> bool)
         (vs : list validator) (chain : Z) (bid : blockid) (h : Z) (c : commit sig),
    wf_valset vs ->
    verify_commit_light sv vs chain bid h c = R_ok ->
    length vs = length (c_sigs c) /\ h = c_height c /\ bid = c_bid c /\
    3 * good_tally sig sv chain h (c_round c) bid vs (c_sigs c) > 2 * sum_power vs.
Proof. exact verify_commit_light_sound. Qed.
Print Assumptions C07_verify_commit_light_sound.

(* Exact rule: accepted iff some prefix of the slots has all its for-the-block signatures valid
   and already carries more than 2/3 (nothing after that prefix, and no nil/absent slot, is
   looked at). *)
Theorem C07_verify_commit_light_iff :
  forall (sig : Type) (sv : key -> signmsg -> sig -> bool)
         (vs : list validator) (chain : Z) (bid : blockid) (h : Z) (c : commit sig),
    wf_valset vs ->
    (verify_commit_light sv vs chain bid h c = R_ok <->
     length vs = length (c_sigs c) /\ h = c_height c /\ bid = c_bid c /\
     exists n, flagged_valid sig sv chain c (firstn n vs) (firstn n (c_sigs c)) /\
               3 * block_tally sig (firstn n vs) (firstn n (c_sigs c)) > 2 * sum_power vs).
Proof. exact verify_commit_light_iff. Qed.
Print Assumptions C07_verify_commit_light_iff.

(* ---- the two variants agree ---------------------------------------------------------------- *)

Theorem C07_full_implies_light :
  forall (sig : Type) (sv : key -> signmsg -> sig -> bool)
         (vs : list validator) (chain : Z) (bid : blockid) (h : Z) (c : commit sig),
    wf_valset vs ->
    verify_commit sv vs chain bid h c = R_ok -> verify_commit_light sv vs chain bid h c = R_ok.
Proof. exact full_implies_light. Qed.
Print Assumptions C07_full_implies_light.

(* On every commit all of whose (non-absent) signatures are valid, the full and the early-exit
   variant give the same verdict. *)
Theorem C07_full_light_agree :
  forall (sig : Type) (sv : key -> signmsg -> sig -> bool)
         (vs : list validator) (chain : Z) (bid : blockid) (h : Z) (c : commit sig),
    wf_valset vs ->
    all_slots_ok sig sv chain c vs (c_sigs c) ->
    (verify_commit sv vs chain bid h c = R_ok <-> verify_commit_light sv vs chain bid h c = R_ok).
Proof. exact full_light_agree. Qed.
Print Assumptions C07_full_light_agree.

(* ---- VerifyCommitLightTrusting -------------------------------------------------------------- *)

(* Accepted at trust level num/den only if there are DISTINCT members of the set (indices S, no
   repetition), each with a slot in the commit that is flagged for the block, carries the
   member's address and a signature valid under the member's key for exactly
   (chain, commit height, commit round, commit block id), and together they hold strictly more
   than num/den of the total.  Unknown signers and second slots of a member are not in S.
   Premise num, den <= MaxInt64: what tmmath.ParseFraction enforces (see
   C07_trusting_premise_needed below for what happens beyond it, finding F14). *)
Theorem C07_trusting_sound :
  forall (sig : Type) (sv : key -> signmsg -> sig -> bool)
         (vs : list validator) (chain : Z) (c : commit sig) (num den : Z),
    wf_valset vs -> 0 <= num <= max_int64 -> 0 <= den <= max_int64 ->
    verify_commit_light_trusting sv vs chain c num den = R_ok ->
    exists S : list nat,
      NoDup S /\ Forall (member_signed sig sv chain c vs) S /\
      den * pw vs S > num * sum_power vs.
Proof. exact verify_commit_light_trusting_sound. Qed.
Print Assumptions C07_trusting_sound.

(* ---- what never counts --------------------------------------------------------------------- *)

(* Slots not flagged for the block (absent, nil, any other flag) can be replaced by anything
   else not flagged for the block without changing the early-exit verdict ... *)
Theorem C07_never_counted_unflagged_light :
  forall (sig : Type) (sv : key -> signmsg -> sig -> bool)
         (vs : list validator) (chain : Z) (bid : blockid) (h : Z) (c : commit sig)
         (s' : list (commitsig sig)),
    Forall2 (same_or_unflagged sig) (c_sigs c) s' ->
    verify_commit_light sv vs chain bid h (with_sigs sig c s') = verify_commit_light sv vs chain bid h c.
Proof. exact verify_commit_light_ignores_unflagged. Qed.
Print Assumptions C07_never_counted_unflagged_light.

(* ... and for the trusting variant the same holds for slots not flagged for the block or whose
   address belongs to no member of the set (unknown signers). *)
Theorem C07_never_counted_skipped_trusting :
  forall (sig : Type) (sv : key -> signmsg -> sig -> bool)
         (vs : list validator) (chain : Z) (c : commit sig) (num den : Z) (s' : list (commitsig sig)),
    Forall2 (same_or_skipped sig vs) (c_sigs c) s' ->
    verify_commit_light_trusting sv vs chain (with_sigs sig c s') num den =
    verify_commit_light_trusting sv vs chain c num den.
Proof. exact verify_commit_light_trusting_ignores_skipped. Qed.
Print Assumptions C07_never_counted_skipped_trusting.

(* With symbolic signatures (a signature is the pair of the key that made it and the vote it
   was made over): a signature made by another key, or over another chain, height, round,
   block or timestamp, is not a counted slot of good_tally / member_signed. *)
Theorem C07_other_message_never_counted :
  forall chain h r bid v (cs : commitsig isig) k ch' h' r' bid' ts',
    bid <> 0 -> cs_sig cs = Signed k (sign_msg ch' h' r' bid' ts') ->
    (k <> v_key v \/ ch' <> chain \/ h' <> h \/ r' <> r \/ bid' <> bid \/ ts' <> cs_ts cs) ->
    good_slot isig ideal_verify chain h r bid v cs = false.
Proof. exact ideal_other_message_not_counted. Qed.
Print Assumptions C07_other_message_never_counted.

(* ---- no int64 overflow on well-formed sets ---------------------------------------------------- *)

(* Replacing every int64 operation of the three functions (tally additions, total*2, safeMul's
   product and negations, the int64(uint64) conversions of the fraction, the division) by exact
   integer arithmetic does not change any answer: nothing wraps when the set's total is at most
   MaxTotalVotingPower (and, for the trusting variant, the fraction fits in int64). *)
Theorem C07_no_overflow :
  forall (sig : Type) (sv : key -> signmsg -> sig -> bool) (vs : list validator), wf_valset vs ->
    (forall chain bid h c,
       verify_commit sv vs chain bid h c = verify_commit_w sig sv idw vs chain bid h c) /\
    (forall chain bid h c,
       verify_commit_light sv vs chain bid h c = verify_commit_light_w sig sv idw vs chain bid h c) /\
    (forall chain c num den, 0 <= num <= max_int64 -> 0 <= den <= max_int64 ->
       verify_commit_light_trusting sv vs chain c num den =
       verify_commit_light_trusting_w sig sv idw vs chain c num den).
Proof.
  intros sig sv vs Hwf. split; [|split]; intros.
  - apply verify_commit_nowrap; assumption.
  - apply verify_commit_light_nowrap; assumption.
  - apply verify_commit_light_trusting_nowrap; assumption.
Qed.
Print Assumptions C07_no_overflow.

(* On a well-formed set TotalVotingPower() does not panic and is the exact sum. *)
Theorem C07_total_voting_power_exact :
  forall vs, wf_valset vs -> total_voting_power vs = Some (sum_power vs).
Proof. exact total_voting_power_wf. Qed.
Print Assumptions C07_total_voting_power_exact.

(* ---- robustness ------------------------------------------------------------------------------- *)

(* On a well-formed set the early-exit and the trusting variant never panic, whatever the commit;
   the full variant does not panic when every slot's flag is one of the three defined values
   (what CommitSig.ValidateBasic checks).  [R_panic] models the Go panics in CommitSig.BlockID
   (unknown flag), updateTotalVotingPower and an out-of-range validator index. *)
Theorem C07_no_panic :
  forall (sig : Type) (sv : key -> signmsg -> sig -> bool)
         (vs : list validator) (chain : Z) (bid : blockid) (h : Z) (c : commit sig) (num den : Z),
    wf_valset vs ->
    verify_commit_light sv vs chain bid h c <> R_panic /\
    verify_commit_light_trusting sv vs chain c num den <> R_panic /\
    (forallb cs_flag_known (c_sigs c) = true -> verify_commit sv vs chain bid h c <> R_panic).
Proof. exact no_panic. Qed.
Print Assumptions C07_no_panic.

(* When the set has no duplicate address, the distinct member indices delivered by
   C07_trusting_sound are validators with pairwise distinct addresses. *)
Theorem C07_members_distinct_addresses :
  forall (vs : list validator) (S : list nat),
    NoDup (map v_addr vs) -> NoDup S -> (forall i, In i S -> nth_error vs i <> None) ->
    NoDup (map (fun i => nth i (map v_addr vs) 0) S).
Proof. exact members_distinct_addresses. Qed.
Print Assumptions C07_members_distinct_addresses.


(* ---- the canonical vote's field widths (Canonical.v) -------------------------------------- *)

(* CanonicalVote carries height and round as sfixed64 (8 bytes, two's complement).  For every
   pair of votes whose heights and rounds are int64 values — all a Go vote can hold; the int32
   round is sign-extended — equal wire records (chain, type, 8 height bytes, 8 round bytes, block
   id, timestamp) mean equal abstract records: no two distinct (chain, height, round, type,
   block id, timestamp) share their canonical fields. *)
Theorem C07_canonical_record_injective :
  forall a b : signmsg,
    signmsg_in_range a -> signmsg_in_range b ->
    canonical_record a = canonical_record b -> a = b.
Proof. exact canonical_record_inj. Qed.
Print Assumptions C07_canonical_record_injective.

(* Hence the signature oracle of the run ("made by that key over that abstract record") is the
   oracle "made by that key over a record with the same wire fields" on int64 heights/rounds:
   the monitors, which use the former with unbounded integers, lose nothing against an
   implementation that signs and verifies the full-width record. *)
Theorem C07_wire_oracle_is_ideal :
  forall (pk : key) (m : signmsg) (s : isig),
    signmsg_in_range m -> (forall k m', s = Signed k m' -> signmsg_in_range m') ->
    wire_verify pk m s = ideal_verify pk m s.
Proof. exact wire_oracle_is_ideal. Qed.
Print Assumptions C07_wire_oracle_is_ideal.

(* ---- non-vacuity, boundaries, and the limit of the trusting theorem (closed computations) ----- *)

Definition ex_vs : list validator :=
  [ {| v_addr := 1; v_key := 11; v_power := 1 |}; {| v_addr := 2; v_key := 12; v_power := 1 |};
    {| v_addr := 3; v_key := 13; v_power := 1 |} ].

Definition ex_block (k a ts : Z) : commitsig isig :=
  {| cs_flag := block_id_flag_commit; cs_addr := a; cs_ts := ts;
     cs_sig := Signed k (sign_msg 7 10 0 5 ts) |}.
Definition ex_nil (k a ts : Z) : commitsig isig :=
  {| cs_flag := block_id_flag_nil; cs_addr := a; cs_ts := ts;
     cs_sig := Signed k (sign_msg 7 10 0 0 ts) |}.
Definition ex_absent : commitsig isig :=
  {| cs_flag := block_id_flag_absent; cs_addr := 0; cs_ts := 0; cs_sig := Garbage |}.
Definition ex_commit (s : list (commitsig isig)) : commit isig :=
  {| c_height := 10; c_round := 0; c_bid := 5; c_sigs := s |}.

Lemma ex_vs_wf : wf_valset ex_vs.
Proof. apply wf_valsetb_wf. vm_compute. reflexivity. Qed.

(* 3 of 3 accepted; exactly 2/3 (2 of 3, third votes nil with a valid signature) is NOT enough:
   the hypotheses of the theorems are satisfiable and the threshold is strict *)
Example C07_threshold_nonvacuous :
  verify_commit ideal_verify ex_vs 7 5 10 (ex_commit [ex_block 11 1 100; ex_block 12 2 101; ex_block 13 3 102]) = R_ok /\
  verify_commit ideal_verify ex_vs 7 5 10 (ex_commit [ex_block 11 1 100; ex_block 12 2 101; ex_nil 13 3 102]) = R_err_power 2 2 /\
  verify_commit_light ideal_verify ex_vs 7 5 10 (ex_commit [ex_block 11 1 100; ex_block 12 2 101; ex_nil 13 3 102]) = R_err_power 2 2 /\
  verify_commit_light ideal_verify ex_vs 7 5 10 (ex_commit [ex_block 11 1 100; ex_block 12 2 101; ex_block 13 3 102]) = R_ok.
Proof. vm_compute. repeat split; reflexivity. Qed.

(* a signature over another chain / height / block, or by another key, is rejected, never counted *)
Example C07_other_message_nonvacuous :
  let other_chain := {| cs_flag := block_id_flag_commit; cs_addr := 3; cs_ts := 102;
                        cs_sig := Signed 13 (sign_msg 8 10 0 5 102) |} in
  let other_block := {| cs_flag := block_id_flag_commit; cs_addr := 3; cs_ts := 102;
                        cs_sig := Signed 13 (sign_msg 7 10 0 6 102) |} in
  verify_commit ideal_verify ex_vs 7 5 10 (ex_commit [ex_block 11 1 100; ex_block 12 2 101; other_chain]) = R_err_sig 2 /\
  verify_commit_light ideal_verify ex_vs 7 5 10 (ex_commit [ex_block 11 1 100; ex_block 12 2 101; other_block]) = R_err_sig 2 /\
  verify_commit ideal_verify ex_vs 7 5 10 (ex_commit [ex_block 11 1 100; ex_block 12 2 101; ex_block 12 3 102]) = R_err_sig 2.
Proof. vm_compute. repeat split; reflexivity. Qed.

(* the early-exit variant really exits early (garbage after the threshold is not seen), which is
   why agreement with the full variant is stated for commits whose signatures are all valid *)
Example C07_light_exits_early :
  let junk := {| cs_flag := block_id_flag_commit; cs_addr := 3; cs_ts := 0; cs_sig := Garbage |} in
  let vs4 := ex_vs ++ [{| v_addr := 4; v_key := 14; v_power := 0 |}] in
  verify_commit_light ideal_verify vs4 7 5 10
    (ex_commit [ex_block 11 1 100; ex_block 12 2 101; ex_block 13 3 102; junk]) = R_ok /\
  verify_commit ideal_verify vs4 7 5 10
    (ex_commit [ex_block 11 1 100; ex_block 12 2 101; ex_block 13 3 102; junk]) = R_err_sig 3.
Proof. vm_compute. split; reflexivity. Qed.

(* trusting variant: a commit of another validator set (5 slots, two of them members of ex_vs).
   At level 1/3: one member (1 of 3) is not more than 1/3, two members are; a member signing in
   two slots is an error, not two votes; an unknown signer is skipped *)
Example C07_trusting_nonvacuous :
  verify_commit_light_trusting ideal_verify ex_vs 7
    (ex_commit [ex_block 99 99 1; ex_block 11 1 100; ex_absent; ex_block 98 98 2; ex_block 13 3 102]) 1 3 = R_ok /\
  verify_commit_light_trusting ideal_verify ex_vs 7
    (ex_commit [ex_block 99 99 1; ex_block 11 1 100; ex_absent; ex_block 98 98 2]) 1 3 = R_err_power 1 1 /\
  verify_commit_light_trusting ideal_verify ex_vs 7
    (ex_commit [ex_block 11 1 100; ex_block 11 1 101; ex_block 13 3 102]) 1 3 = R_err_double 0 1.
Proof. vm_compute. repeat split; reflexivity. Qed.

(* F14 — the premise "numerator and denominator fit in int64" of C07_trusting_sound cannot be
   dropped: with the fraction (2^64-1)/1 the conversions int64(uint64) wrap to -1/1, the needed
   power becomes negative and ONE member out of three is accepted although the stated level
   (more than (2^64-1) times the total) is unreachable.  tmmath.ParseFraction and
   light.ValidateTrustLevel never let such a fraction through (the harness evaluates the real
   code on such fractions and reports the count separately). *)
Example C07_trusting_premise_needed :
  verify_commit_light_trusting ideal_verify ex_vs 7
    (ex_commit [ex_block 11 1 100; ex_absent; ex_absent]) 18446744073709551615 1 = R_ok /\
  validate_trust_level 18446744073709551615 1 = false.
Proof. vm_compute. split; reflexivity. Qed.

(* hypotheses of the agreement and never-counted theorems are satisfiable on non-trivial data *)
Example C07_agree_nonvacuous :
  wf_valset ex_vs /\
  all_slots_ok isig ideal_verify 7 (ex_commit [ex_block 11 1 100; ex_nil 12 2 101; ex_absent]) ex_vs
               [ex_block 11 1 100; ex_nil 12 2 101; ex_absent] /\
  Forall2 (same_or_unflagged isig) [ex_block 11 1 100; ex_nil 12 2 101; ex_absent]
          [ex_block 11 1 100; ex_absent; {| cs_flag := block_id_flag_nil; cs_addr := 77; cs_ts := 5; cs_sig := Garbage |}] /\
  Forall2 (same_or_skipped isig ex_vs) [ex_block 99 99 1; ex_block 11 1 100] [ex_absent; ex_block 11 1 100].
Proof.
  split; [exact ex_vs_wf|]. split; [|split].
  - unfold all_slots_ok, ex_vs. cbn [combine].
    constructor; [|constructor; [|constructor; [|constructor]]]; cbn [fst snd].
    + right. eexists. split; [reflexivity | vm_compute; reflexivity].
    + right. eexists. split; [reflexivity | vm_compute; reflexivity].
    + left. reflexivity.
  - constructor; [left; reflexivity|]. constructor; [right; split; reflexivity|].
    constructor; [right; split; reflexivity | constructor].
  - constructor; [|constructor; [left; reflexivity | constructor]].
    right. split; [right; reflexivity | left; reflexivity].
Qed.

(* an unknown flag value makes the full variant panic (CommitSig.BlockID) — the premise of the
   last clause of C07_no_panic is needed; the light variants skip the slot *)
Example C07_unknown_flag_panics :
  let odd := {| cs_flag := 4; cs_addr := 3; cs_ts := 102; cs_sig := Signed 13 (sign_msg 7 10 0 5 102) |} in
  verify_commit ideal_verify ex_vs 7 5 10 (ex_commit [ex_block 11 1 100; ex_block 12 2 101; odd]) = R_panic /\
  verify_commit_light ideal_verify ex_vs 7 5 10 (ex_commit [ex_block 11 1 100; ex_block 12 2 101; odd]) = R_err_power 2 2.
Proof. vm_compute. split; reflexivity. Qed.

(* the width matters, and the range premise is needed: heights 2^32 apart differ in their 8-byte
   field but would collide in a 4-byte one (a signature for height 5 would count at height
   2^32 + 5); beyond int64 — no Go value — even 8 bytes collide *)
Example C07_canonical_width_needed :
  let m (h r : Z) := sign_msg 7 h r 5 100 in
  signmsg_in_range (m 4294967301 2147483647) /\ signmsg_in_range (m 5 (-1)) /\
  canonical_record (m 5 0) <> canonical_record (m 4294967301 0) /\
  canonical_record (m 5 0) <> canonical_record (m 5 65536) /\
  canonical_record (m 5 2147483647) <> canonical_record (m 5 (-1)) /\
  sfixed32 5 = sfixed32 4294967301 /\
  canonical_record (m 5 0) = canonical_record (m (5 + 18446744073709551616) 0) /\
  wire_verify 11 (m 4294967301 0) (Signed 11 (m 5 0)) = false.
Proof.
  cbv zeta. unfold signmsg_in_range, int64_range.
  repeat split; try (vm_compute; congruence); try (vm_compute; reflexivity).
Qed.
