// genconsts: regenerate coq/Generated/Consts.v from the constants of /repo's current working
// tree. It parses the Go sources (go/parser) and evaluates constant expressions with
// go/constant; anything it cannot evaluate is an error (never a default).
//
// usage: genconsts <repo> <spec.txt>  > Consts.v
// spec lines:   <coq_name> const <pkgdir> <GoName>          integer constant (typed or untyped)
//
//	<coq_name> bytes <pkgdir> <GoVarName>       var X = []byte{...} of literals
//	<coq_name> duration <pkgdir> <GoName>       time.Duration constant, in ns
package main

import (
	"bufio"
	"fmt"
	"go/ast"
	"go/constant"
	"go/parser"
	"go/token"
	"os"
	"path/filepath"
	"strings"
)

const modPath = "github.com/tendermint/tendermint/"

type pkg struct {
	dir    string
	consts map[string]constDecl
	vars   map[string]ast.Expr
}

type constDecl struct {
	expr    ast.Expr
	iota    int
	imports map[string]string // local name -> import path
}

var repo string
var pkgs = map[string]*pkg{}

var builtin = map[string]string{
	"math.MaxInt64": "9223372036854775807", "math.MinInt64": "-9223372036854775808",
	"math.MaxInt32": "2147483647", "math.MinInt32": "-2147483648",
	"math.MaxUint32": "4294967295", "math.MaxInt16": "32767", "math.MaxUint16": "65535",
	"math.MaxUint8": "255", "math.MaxInt": "9223372036854775807",
	"sha256.Size": "32", "sha256.BlockSize": "64",
	"time.Nanosecond": "1", "time.Microsecond": "1000", "time.Millisecond": "1000000",
	"time.Second": "1000000000", "time.Minute": "60000000000", "time.Hour": "3600000000000",
	"binary.MaxVarintLen64": "10", "ed25519.PublicKeySize": "32", "ed25519.SignatureSize": "64",
	"chacha20poly1305.Overhead": "16", "chacha20poly1305.NonceSize": "12", "chacha20poly1305.KeySize": "32",
}

func loadPkg(dir string) *pkg {
	if p, ok := pkgs[dir]; ok {
		return p
	}
	p := &pkg{dir: dir, consts: map[string]constDecl{}, vars: map[string]ast.Expr{}}
	pkgs[dir] = p
	fset := token.NewFileSet()
	matches, _ := filepath.Glob(filepath.Join(repo, dir, "*.go"))
	for _, f := range matches {
		if strings.HasSuffix(f, "_test.go") {
			continue
		}
		file, err := parser.ParseFile(fset, f, nil, 0)
		if err != nil {
			fail("parse %s: %v", f, err)
		}
		imps := map[string]string{}
		for _, im := range file.Imports {
			path := strings.Trim(im.Path.Value, `"`)
			name := path[strings.LastIndex(path, "/")+1:]
			if im.Name != nil {
				name = im.Name.Name
			}
			imps[name] = path
		}
		for _, d := range file.Decls {
			gd, ok := d.(*ast.GenDecl)
			if !ok {
				continue
			}
			var lastExprs []ast.Expr
			for i, s := range gd.Specs {
				vs, ok := s.(*ast.ValueSpec)
				if !ok {
					continue
				}
				if gd.Tok == token.CONST {
					exprs := vs.Values
					if len(exprs) == 0 {
						exprs = lastExprs
					} else {
						lastExprs = exprs
					}
					for j, n := range vs.Names {
						if j < len(exprs) {
							p.consts[n.Name] = constDecl{exprs[j], i, imps}
						}
					}
				} else if gd.Tok == token.VAR {
					for j, n := range vs.Names {
						if j < len(vs.Values) {
							p.vars[n.Name] = vs.Values[j]
						}
					}
				}
			}
		}
	}
	return p
}

func fail(f string, a ...interface{}) {
	fmt.Fprintf(os.Stderr, "genconsts: "+f+"\n", a...)
	os.Exit(2)
}

func evalConst(p *pkg, name string) constant.Value {
	d, ok := p.consts[name]
	if !ok {
		fail("constant %s not found in %s", name, p.dir)
	}
	return eval(p, d, d.expr)
}

func eval(p *pkg, d constDecl, e ast.Expr) constant.Value {
	switch x := e.(type) {
	case *ast.BasicLit:
		v := constant.MakeFromLiteral(x.Value, x.Kind, 0)
		if v.Kind() == constant.Unknown {
			fail("bad literal %s", x.Value)
		}
		return v
	case *ast.ParenExpr:
		return eval(p, d, x.X)
	case *ast.Ident:
		if x.Name == "iota" {
			return constant.MakeInt64(int64(d.iota))
		}
		return evalConst(p, x.Name)
	case *ast.SelectorExpr:
		id, ok := x.X.(*ast.Ident)
		if !ok {
			fail("unsupported selector in %s", p.dir)
		}
		key := id.Name + "." + x.Sel.Name
		path := d.imports[id.Name]
		if strings.HasPrefix(path, modPath) {
			return evalConst(loadPkg(strings.TrimPrefix(path, modPath)), x.Sel.Name)
		}
		if path != "" {
			key = path[strings.LastIndex(path, "/")+1:] + "." + x.Sel.Name
		}
		if s, ok := builtin[key]; ok {
			return constant.MakeFromLiteral(s, token.INT, 0)
		}
		fail("unknown external constant %s (import %q)", key, path)
	case *ast.CallExpr: // conversion T(x)
		if len(x.Args) == 1 {
			if id, ok := x.Fun.(*ast.Ident); ok {
				switch id.Name {
				case "int", "int64", "int32", "uint", "uint64", "uint32", "uint16", "uint8", "byte", "int16", "int8":
					return eval(p, d, x.Args[0])
				case "len":
					if bl, ok := x.Args[0].(*ast.BasicLit); ok && bl.Kind == token.STRING {
						s := constant.StringVal(constant.MakeFromLiteral(bl.Value, token.STRING, 0))
						return constant.MakeInt64(int64(len(s)))
					}
				}
			}
			if sel, ok := x.Fun.(*ast.SelectorExpr); ok && sel.Sel.Name == "Duration" {
				return eval(p, d, x.Args[0])
			}
		}
		fail("unsupported call expression in constant of %s", p.dir)
	case *ast.UnaryExpr:
		return constant.UnaryOp(x.Op, eval(p, d, x.X), 0)
	case *ast.BinaryExpr:
		a, b := eval(p, d, x.X), eval(p, d, x.Y)
		switch x.Op {
		case token.SHL, token.SHR:
			n, _ := constant.Uint64Val(b)
			return constant.Shift(a, x.Op, uint(n))
		case token.QUO:
			if a.Kind() == constant.Int && b.Kind() == constant.Int {
				return constant.BinaryOp(a, token.QUO_ASSIGN, b) // integer division
			}
		}
		return constant.BinaryOp(a, x.Op, b)
	}
	fail("unsupported constant expression %T in %s", e, p.dir)
	return nil
}

func main() {
	if len(os.Args) != 3 {
		fail("usage: genconsts <repo> <spec>")
	}
	repo = os.Args[1]
	f, err := os.Open(os.Args[2])
	if err != nil {
		fail("%v", err)
	}
	defer f.Close()
	fmt.Println("(* GENERATED by tools/genconsts from the Go sources of the repository's working tree.")
	fmt.Println("   Do not edit: regenerated on every check run. *)")
	fmt.Println("From Coq Require Import ZArith NArith List.")
	fmt.Println("Import ListNotations.")
	sc := bufio.NewScanner(f)
	for sc.Scan() {
		line := strings.TrimSpace(sc.Text())
		if line == "" || strings.HasPrefix(line, "#") {
			continue
		}
		fs := strings.Fields(line)
		if len(fs) != 4 {
			fail("bad spec line: %s", line)
		}
		coq, kind, dir, name := fs[0], fs[1], fs[2], fs[3]
		p := loadPkg(dir)
		switch kind {
		case "const", "duration":
			v := evalConst(p, name)
			if v.Kind() != constant.Int {
				fail("%s.%s is not an integer constant", dir, name)
			}
			fmt.Printf("Definition %s : Z := (%s)%%Z. (* %s.%s *)\n", coq, v.ExactString(), dir, name)
		case "bytes":
			e, ok := p.vars[name]
			if !ok {
				fail("var %s not found in %s", name, dir)
			}
			cl, ok := e.(*ast.CompositeLit)
			if !ok {
				fail("var %s.%s is not a composite literal", dir, name)
			}
			var elems []string
			for _, el := range cl.Elts {
				v := eval(p, constDecl{nil, 0, nil}, el)
				elems = append(elems, v.ExactString()+"%N")
			}
			fmt.Printf("Definition %s : list N := [%s]. (* %s.%s *)\n", coq, strings.Join(elems, "; "), dir, name)
		default:
			fail("unknown kind %s", kind)
		}
	}
}
