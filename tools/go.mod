module verif/tools

go 1.21
